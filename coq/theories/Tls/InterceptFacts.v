(* C11 — lemmas and proofs about Tls/Intercept.v *)
From PM Require Import Lib.Bytes Lib.BytesFacts Lib.PyStr Tls.Intercept.

(* ------------------------------------------------------------------ small computations *)
Lemma certverif_is_ssl e : is_SSLCertVerificationError e = true -> is_SSLError e = true.
Proof. destruct e; simpl; congruence. Qed.
Lemma ssl_is_os e : is_SSLError e = true -> is_OSError e = true.
Proof. destruct e; simpl; congruence. Qed.
Lemma ssl_not_http e : is_SSLError e = true -> is_HttpProtocolException e = false.
Proof. destruct e; simpl; congruence. Qed.
Lemma not_ssl_not_wantread e : is_SSLError e = false -> is_SSLWantReadError e = false.
Proof. destruct e; simpl; congruence. Qed.

Lemma take_len l : take (len l) l = l.
Proof. pose proof (take_app_exact l []) as H. rewrite app_nil_r in H. exact H. Qed.

Section PkiFacts.
  Variable is_ip_literal : bytes -> bool.

  Lemma get_ext_config_single h :
    get_ext_config is_ip_literal (Some [h]) None = LF :: bs "subjectAltName=" ++ get_alt_name is_ip_literal h.
  Proof. reflexivity. Qed.

  Lemma ssl_config_single h :
    ssl_config is_ip_literal (Some [h]) None =
    (LF :: bs "[PROXY]" ++ LF :: bs "subjectAltName=" ++ get_alt_name is_ip_literal h, true).
  Proof. reflexivity. Qed.

  (* the subjectAltName entry: IP: exactly for IP literals (brackets stripped), DNS: otherwise *)
  Lemma get_alt_name_spec h :
    get_alt_name is_ip_literal h =
    if is_ip_literal (strip_brackets h) then bs "IP:" ++ strip_brackets h else bs "DNS:" ++ h.
  Proof. reflexivity. Qed.
End PkiFacts.

(* _tls_intercept_enabled is: flags complete and no plugin said False *)
Lemma tls_intercept_enabled_spec fl answers :
  tls_intercept_enabled_ fl answers = tls_interception_enabled fl && forallb (fun a => a) answers.
Proof.
  unfold tls_intercept_enabled_. destruct (tls_interception_enabled fl); simpl; [|reflexivity].
  assert (G : forall acc, acc = true -> do_intercept_loop acc answers = forallb (fun a => a) answers).
  { induction answers as [|a t IH]; intros acc Hacc; simpl; [assumption|].
    destruct a; simpl; [apply IH; reflexivity|reflexivity]. }
  apply G; reflexivity.
Qed.

Lemma mem_path_cons p q l : mem_path p (q :: l) = bytes_eqb p q || mem_path p l.
Proof. reflexivity. Qed.

Local Opaque K200 PROXY_TUNNEL_ESTABLISHED_RESPONSE_PKT text_ strip_brackets path_join build_subject
      ssl_config get_ext_config validity_in_days mem_path get_alt_name generated_cert_file_path.

(* destruct the scrutinee of an innermost match in a hypothesis / the goal *)
Ltac case_match_hyp H :=
  match type of H with
  | context [match ?x with _ => _ end] =>
      lazymatch x with
      | context [match _ with _ => _ end] => fail
      | _ => destruct x eqn:?
      end
  end.
Ltac case_match_goal :=
  match goal with
  | |- context [match ?x with _ => _ end] =>
      lazymatch x with
      | context [match _ with _ => _ end] => fail
      | _ => destruct x eqn:?
      end
  end.
Ltac inv H := inversion H; subst; clear H.

Lemma mbind_inv {A B} (m : M A) (f : A -> M B) s s' r :
  mbind m f s = (s', r) ->
  (exists s1 a, m s = (s1, Ret a) /\ f a s1 = (s', r)) \/ (exists e, m s = (s', Raise e) /\ r = Raise e).
Proof.
  unfold mbind. destruct (m s) as [s1 [a|e]]; intros H.
  - left; eauto.
  - right; inv H; eauto.
Qed.

Section Facts.
  Variable is_ip_literal : bytes -> bool.
  Variable connect : bytes -> N -> option pyexn.
  Variable handshake : wrap_call -> hs_result.
  Variable openssl_run : openssl_cmd -> run_result.
  Variable client_flush : bytes -> flush_result.
  Variable client_handshake : bytes -> bytes -> option pyexn.
  Variable PS RS : Type.
  Variable pipeline_step : PS -> bytes -> (PS * list bytes) + pipe_failure.
  Variable response_step : RS -> bytes -> option RS.

  Notation wrap_server_ := (wrap_server handshake).
  Notation wrap_client_ := (wrap_client is_ip_literal openssl_run client_flush client_handshake).
  Notation intercept_ := (intercept is_ip_literal handshake openssl_run client_flush client_handshake).
  Notation on_request_complete_ := (on_request_complete is_ip_literal connect handshake openssl_run client_flush client_handshake).
  Notation handle_connect_ := (handle_connect is_ip_literal connect handshake openssl_run client_flush client_handshake PS RS).
  Notation step_ := (step PS RS pipeline_step response_step).
  Notation run_ := (run is_ip_literal connect handshake openssl_run client_flush client_handshake PS RS pipeline_step response_step).
  Notation alt_name := (get_alt_name is_ip_literal).
  Local Notation good_cmd := (Intercept.good_cmd is_ip_literal).
  Local Notation client_side_effect := (Intercept.client_side_effect is_ip_literal).

  (* ================================================================ wrap_server *)
  Lemma wrap_server_spec fl host s s' r :
    wrap_server_ fl host s = (s', r) ->
    fs s' = fs s /\ cl s' = cl s /\ cl_buf s' = cl_buf s /\ cl_wire s' = cl_wire s /\
    up_buf s' = up_buf s /\ up_wire s' = up_wire s /\
    match r with
    | Ret false => exists h p, text_ host = Ok h /\ handshake (policy_call fl h) = HsOk p /\
                               up s' = UpTls /\ peer s' = p /\ tr s' = tr s ++ [EUpstreamWrap (policy_call fl h)]
    | Ret true => exists h e, text_ host = Ok h /\ handshake (policy_call fl h) = HsRaise e /\ is_SSLError e = true /\
                              up s' = UpDead /\ tr s' = tr s ++ [EUpstreamWrap (policy_call fl h)]
    | Raise e => ((up s = UpNone \/ exists e0, text_ host = Err e0) /\ up s' = up s /\ tr s' = tr s) \/
                 (exists h, text_ host = Ok h /\ handshake (policy_call fl h) = HsRaise e /\ is_SSLError e = false /\
                            up s' = UpDead /\ tr s' = tr s ++ [EUpstreamWrap (policy_call fl h)])
    end /\
    (r <> Ret false -> peer s' = peer s).
  Proof.
    unfold wrap_server, server_conn_wrap, catch, mbind, get, assert_, text_m, emit, set_up, set_peer, ret, raise, policy_call.
    intros H.
    destruct (insecure_tls_interception fl);
      repeat (case_match_hyp H; simpl in H); inv H; simpl;
      repeat match goal with H : is_SSLCertVerificationError _ = true |- _ => apply certverif_is_ssl in H end;
      (repeat split; try reflexivity; try congruence; eauto 10).
  Qed.

  (* ================================================================ wrap_client *)
  (* gen_step: runs at most its own command; the file system only grows, by the -out file of a
     command that succeeded *)
  Lemma gen_step_spec path cmd s s' r :
    gen_step openssl_run path cmd s = (s', r) ->
    cl s' = cl s /\ cl_buf s' = cl_buf s /\ cl_wire s' = cl_wire s /\ up s' = up s /\
    up_buf s' = up_buf s /\ up_wire s' = up_wire s /\ peer s' = peer s /\
    exists t, tr s' = tr s ++ t /\ (t = [] \/ t = [EOpenssl cmd]) /\
      (forall p, mem_path p (fs s') = true ->
                 mem_path p (fs s) = true \/
                 (bytes_eqb p (cmd_out cmd) = true /\ openssl_run cmd = RTrue /\ In (EOpenssl cmd) t)) /\
      (forall p, mem_path p (fs s) = true -> mem_path p (fs s') = true) /\
      (r = Ret tt -> cmd_out cmd = path -> mem_path path (fs s') = true) /\
      (mem_path path (fs s) = true -> t = [] /\ fs s' = fs s /\ r = Ret tt).
  Proof.
    unfold gen_step, mbind, get, emit, set_fs, ret, raise. intros H.
    destruct (mem_path path (fs s)) eqn:Hm; simpl in H.
    - inv H. repeat split; auto. exists []. rewrite app_nil_r. repeat split; auto.
    - destruct (openssl_run cmd) eqn:Ho; simpl in H; inv H; simpl; repeat split; auto;
        exists [EOpenssl cmd]; (split; [reflexivity|]); (split; [now right|]); repeat split; auto; try discriminate.
      + intros p Hp. rewrite mem_path_cons in Hp. apply orb_true_iff in Hp as [Hp|Hp]; [right|left; assumption].
        repeat split; auto. now left.
      + intros p Hp. rewrite mem_path_cons, Hp. apply orb_true_r.
      + intros _ <-. rewrite mem_path_cons, bytes_eqb_refl. reflexivity.
  Qed.

  Lemma client_conn_flush_spec s s' r :
    client_conn_flush client_flush s = (s', r) ->
    fs s' = fs s /\ cl s' = cl s /\ up s' = up s /\ up_buf s' = up_buf s /\ up_wire s' = up_wire s /\ peer s' = peer s /\
    (exists t, tr s' = tr s ++ t /\ Forall (fun e => match e with EClientFlush _ => True | _ => False end) t) /\
    (exists w, cl_wire s' = cl_wire s ++ w /\ Forall (fun x => fst x = false) w /\
               concat (map snd w) ++ concat (cl_buf s') = concat (cl_buf s)).
  Proof.
    unfold client_conn_flush, mbind, get, emit, set_cl_buf, set_cl_wire, ret, raise. intros H.
    assert (Hnil : forall A (l : list A), l = l ++ []) by (intros; now rewrite app_nil_r).
    destruct (cl_buf s) as [|mv rest] eqn:Hbuf; simpl in H.
    - inv H. repeat split; auto.
      + exists []. split; [apply Hnil|constructor].
      + exists []. split; [apply Hnil|split; [constructor|now rewrite Hbuf]].
    - destruct (client_flush mv) as [sent| |e] eqn:Hf; simpl in H.
      + destruct (sent =? len mv) eqn:Hk; simpl in H; inv H; simpl; repeat split; auto.
        * eexists; split; [reflexivity|repeat constructor].
        * eexists; split; [reflexivity|split; [repeat constructor|]]. simpl.
          apply N.eqb_eq in Hk. rewrite Hk, take_len, app_nil_r. reflexivity.
        * eexists; split; [reflexivity|repeat constructor].
        * eexists; split; [reflexivity|split; [repeat constructor|]]. simpl.
          rewrite app_nil_r, app_assoc, take_drop. reflexivity.
      + inv H; simpl; repeat split; auto.
        * eexists; split; [reflexivity|repeat constructor].
        * exists []. split; [apply Hnil|split; [constructor|now rewrite Hbuf]].
      + inv H; simpl; repeat split; auto.
        * eexists; split; [reflexivity|repeat constructor].
        * exists []. split; [apply Hnil|split; [constructor|now rewrite Hbuf]].
  Qed.

  Definition openssl_effect (fl : flags) (h : bytes) (e : effect) : Prop :=
    match e with EOpenssl c => good_cmd fl h c | _ => False end.

  (* three chained gen_steps *)
  Lemma gen_ca_signed_certificate_spec fl host h dir certificate s s' r :
    text_ host = Ok h -> ca_cert_dir fl = Some dir ->
    gen_ca_signed_certificate is_ip_literal openssl_run fl host (generated_cert_file_path dir h) certificate s = (s', r) ->
    cl s' = cl s /\ cl_buf s' = cl_buf s /\ cl_wire s' = cl_wire s /\ up s' = up s /\
    up_buf s' = up_buf s /\ up_wire s' = up_wire s /\ peer s' = peer s /\
    exists t, tr s' = tr s ++ t /\ Forall (openssl_effect fl h) t /\
      (forall p, mem_path p (fs s') = true ->
                 mem_path p (fs s) = true \/
                 exists c, In (EOpenssl c) t /\ bytes_eqb p (cmd_out c) = true /\ openssl_run c = RTrue) /\
      (r = Ret tt -> mem_path (generated_cert_file_path dir h) (fs s') = true).
  Proof.
    intros Htext Hdir. unfold gen_ca_signed_certificate, assert_, text_m.
    rewrite Hdir, Htext.
    assert (Hnil : forall A (l : list A), l = l ++ []) by (intros; now rewrite app_nil_r).
    assert (Htriv : forall s0 e, cl s0 = cl s0 /\ cl_buf s0 = cl_buf s0 /\ cl_wire s0 = cl_wire s0 /\ up s0 = up s0 /\
              up_buf s0 = up_buf s0 /\ up_wire s0 = up_wire s0 /\ peer s0 = peer s0 /\
              exists t, tr s0 = tr s0 ++ t /\ Forall (openssl_effect fl h) t /\
                (forall p, mem_path p (fs s0) = true -> mem_path p (fs s0) = true \/
                   exists c, In (EOpenssl c) t /\ bytes_eqb p (cmd_out c) = true /\ openssl_run c = RTrue) /\
                (@Raise unit e = Ret tt -> mem_path (generated_cert_file_path dir h) (fs s0) = true)).
    { intros s0 e. repeat split; auto. exists []. split; [apply Hnil|]. split; [constructor|]. split; [auto|discriminate]. }
    intros H. apply mbind_inv in H as [(s1 & [] & H1 & H)|(e & H1 & ->)].
    2:{ unfold ret, raise in H1. match type of H1 with (if ?c then _ else _) _ = _ => destruct c end; inv H1. apply Htriv. }
    assert (s1 = s) as -> by (unfold ret, raise in H1; match type of H1 with (if ?c then _ else _) _ = _ => destruct c end; now inv H1).
    clear H1.
    destruct (ca_signing_key_file fl) as [key|] eqn:Hkey; [|inv H; apply Htriv].
    destruct (ca_key_file fl) as [cakey|] eqn:Hcakey; [|inv H; apply Htriv].
    destruct (ca_cert_file fl) as [cacrt|] eqn:Hcacrt; [|inv H; apply Htriv].
    destruct certificate as [peer_subject|]; [|inv H; apply Htriv].
    unfold mbind at 1 in H. unfold ret at 1 in H.
    assert (G1 : good_cmd fl h (gen_public_key is_ip_literal (path_join dir (h ++ bs ".pub")) key (build_subject peer_subject) (Some [h]) validity_in_days)).
    { unfold gen_public_key. rewrite ssl_config_single.
      exists dir, key, cakey, cacrt. repeat split; eauto. }
    assert (G2 : good_cmd fl h (gen_csr (path_join dir (h ++ bs ".csr")) key (path_join dir (h ++ bs ".pub")))).
    { exists dir, key, cakey, cacrt. repeat split; auto. }
    assert (G3 : good_cmd fl h (sign_csr is_ip_literal (path_join dir (h ++ bs ".csr")) (generated_cert_file_path dir h) cakey cacrt (Some [h]) validity_in_days)).
    { unfold sign_csr. rewrite get_ext_config_single. exists dir, key, cakey, cacrt. repeat split; auto. }
    set (c1 := gen_public_key _ _ _ _ _ _) in *. set (c2 := gen_csr _ _ _) in *. set (c3 := sign_csr _ _ _ _ _ _ _) in *.
    (* generic step: extend an accumulated description by one gen_step *)
    assert (Step : forall path cmd sa sb rb ta,
      good_cmd fl h cmd ->
      gen_step openssl_run path cmd sa = (sb, rb) ->
      (cl sa = cl s /\ cl_buf sa = cl_buf s /\ cl_wire sa = cl_wire s /\ up sa = up s /\
       up_buf sa = up_buf s /\ up_wire sa = up_wire s /\ peer sa = peer s) ->
      tr sa = tr s ++ ta -> Forall (openssl_effect fl h) ta ->
      (forall p, mem_path p (fs sa) = true -> mem_path p (fs s) = true \/
           exists c, In (EOpenssl c) ta /\ bytes_eqb p (cmd_out c) = true /\ openssl_run c = RTrue) ->
      (cl sb = cl s /\ cl_buf sb = cl_buf s /\ cl_wire sb = cl_wire s /\ up sb = up s /\
       up_buf sb = up_buf s /\ up_wire sb = up_wire s /\ peer sb = peer s) /\
      exists tb, tr sb = tr s ++ tb /\ Forall (openssl_effect fl h) tb /\
        (forall p, mem_path p (fs sb) = true -> mem_path p (fs s) = true \/
           exists c, In (EOpenssl c) tb /\ bytes_eqb p (cmd_out c) = true /\ openssl_run c = RTrue) /\
        (rb = Ret tt -> cmd_out cmd = path -> mem_path path (fs sb) = true)).
    { intros path cmd sa sb rb ta Hgood Hg (A1 & A2 & A3 & A4 & A5 & A6 & A7) Hta Hall Hfs.
      apply gen_step_spec in Hg as (B1 & B2 & B3 & B4 & B5 & B6 & B7 & t & Ht & Hcase & Hgrow & _ & Hpost & _).
      split; [repeat split; congruence|].
      exists (ta ++ t). split; [rewrite Ht, Hta; now rewrite app_assoc|].
      split; [apply Forall_app; split; [assumption|destruct Hcase as [->| ->]; repeat constructor; assumption]|].
      split; [|assumption].
      intros p Hp. apply Hgrow in Hp as [Hp|(Hp & Ho & Hin)].
      - apply Hfs in Hp as [Hp|(c & Hin & Hc)]; [now left|right]. exists c. split; [apply in_or_app; now left|assumption].
      - right. exists cmd. split; [apply in_or_app; now right|split; assumption]. }
    assert (Frame0 : cl s = cl s /\ cl_buf s = cl_buf s /\ cl_wire s = cl_wire s /\ up s = up s /\
       up_buf s = up_buf s /\ up_wire s = up_wire s /\ peer s = peer s) by (repeat split).
    assert (Hfs0 : forall p, mem_path p (fs s) = true -> mem_path p (fs s) = true \/
           exists c, In (EOpenssl c) [] /\ bytes_eqb p (cmd_out c) = true /\ openssl_run c = RTrue) by (intros; now left).
    apply mbind_inv in H as [(s1 & [] & H1 & H)|(e & H1 & ->)].
    2:{ destruct (Step _ _ _ _ _ [] G1 H1 Frame0 (Hnil _ _) (Forall_nil _) Hfs0) as (Fr & tb & Htb & Hall & Hfs & _).
        destruct Fr as (? & ? & ? & ? & ? & ? & ?). repeat split; auto. exists tb. repeat split; auto. discriminate. }
    destruct (Step _ _ _ _ _ [] G1 H1 Frame0 (Hnil _ _) (Forall_nil _) Hfs0) as (Fr1 & t1 & Ht1 & Hall1 & Hfs1 & _).
    apply mbind_inv in H as [(s2 & [] & H2 & H)|(e & H2 & ->)].
    2:{ destruct (Step _ _ _ _ _ t1 G2 H2 Fr1 Ht1 Hall1 Hfs1) as (Fr & tb & Htb & Hall & Hfs & _).
        destruct Fr as (? & ? & ? & ? & ? & ? & ?). repeat split; auto. exists tb. repeat split; auto. discriminate. }
    destruct (Step _ _ _ _ _ t1 G2 H2 Fr1 Ht1 Hall1 Hfs1) as (Fr2 & t2 & Ht2 & Hall2 & Hfs2 & _).
    destruct (Step _ _ _ _ _ t2 G3 H Fr2 Ht2 Hall2 Hfs2) as (Fr3 & t3 & Ht3 & Hall3 & Hfs3 & Hpost).
    destruct Fr3 as (? & ? & ? & ? & ? & ? & ?). repeat split; auto. exists t3. repeat split; auto.
  Qed.

  Lemma generate_upstream_certificate_spec fl host h certificate s s' r :
    text_ host = Ok h ->
    generate_upstream_certificate is_ip_literal openssl_run fl host certificate s = (s', r) ->
    cl s' = cl s /\ cl_buf s' = cl_buf s /\ cl_wire s' = cl_wire s /\ up s' = up s /\
    up_buf s' = up_buf s /\ up_wire s' = up_wire s /\ peer s' = peer s /\
    exists t, tr s' = tr s ++ t /\ Forall (openssl_effect fl h) t /\
      (forall p, mem_path p (fs s') = true ->
                 mem_path p (fs s) = true \/
                 exists c, In (EOpenssl c) t /\ bytes_eqb p (cmd_out c) = true /\ openssl_run c = RTrue) /\
      (forall path, r = Ret path ->
                    exists dir, ca_cert_dir fl = Some dir /\ path = generated_cert_file_path dir h /\
                                mem_path path (fs s') = true) /\
      (forall dir, ca_cert_dir fl = Some dir -> mem_path (generated_cert_file_path dir h) (fs s) = true ->
                   t = [] /\ fs s' = fs s).
  Proof.
    intros Htext. unfold generate_upstream_certificate, text_m. rewrite Htext.
    assert (Hnil : forall A (l : list A), l = l ++ []) by (intros; now rewrite app_nil_r).
    assert (Htriv : forall s0 e, cl s0 = cl s0 /\ cl_buf s0 = cl_buf s0 /\ cl_wire s0 = cl_wire s0 /\ up s0 = up s0 /\
              up_buf s0 = up_buf s0 /\ up_wire s0 = up_wire s0 /\ peer s0 = peer s0 /\
              exists t, tr s0 = tr s0 ++ t /\ Forall (openssl_effect fl h) t /\
                (forall p, mem_path p (fs s0) = true -> mem_path p (fs s0) = true \/
                   exists c, In (EOpenssl c) t /\ bytes_eqb p (cmd_out c) = true /\ openssl_run c = RTrue) /\
                (forall path, @Raise bytes e = Ret path ->
                    exists dir, ca_cert_dir fl = Some dir /\ path = generated_cert_file_path dir h /\
                                mem_path path (fs s0) = true) /\
                (forall dir, ca_cert_dir fl = Some dir -> mem_path (generated_cert_file_path dir h) (fs s0) = true ->
                   t = [] /\ fs s0 = fs s0)).
    { intros s0 e. repeat split; auto. exists []. split; [apply Hnil|]. split; [constructor|].
      split; [auto|]. split; [discriminate|auto]. }
    intros H.
    match type of H with (if ?c then _ else _) _ = _ => destruct c end; [inv H; apply Htriv|].
    destruct (ca_cert_dir fl) as [dir|] eqn:Hdir; [|inv H; apply Htriv].
    unfold mbind at 1, ret at 1 in H. unfold mbind at 1, get at 1 in H.
    destruct (mem_path (generated_cert_file_path dir h) (fs s)) eqn:Hm; simpl in H.
    - unfold mbind, ret in H. inv H. repeat split; auto. exists []. split; [apply Hnil|]. split; [constructor|].
      split; [auto|]. split.
      + intros path Hp. inv Hp. eauto.
      + auto.
    - apply mbind_inv in H as [(s1 & [] & H1 & H)|(e & H1 & ->)].
      + eapply gen_ca_signed_certificate_spec in H1 as (? & ? & ? & ? & ? & ? & ? & t & Ht & Hall & Hgrow & Hpost); eauto.
        unfold ret in H. inv H. repeat split; auto. exists t.
        split; [assumption|]. split; [assumption|]. split; [assumption|]. split.
        * intros path Hp. inv Hp. exists dir. auto.
        * intros d Hd Hc. inv Hd. congruence.
      + eapply gen_ca_signed_certificate_spec in H1 as (? & ? & ? & ? & ? & ? & ? & t & Ht & Hall & Hgrow & Hpost); eauto.
        repeat split; auto. exists t.
        split; [assumption|]. split; [assumption|]. split; [assumption|]. split.
        * discriminate.
        * intros d Hd Hc. inv Hd. congruence.
  Qed.

  Definition client_wrap_effect (keyfile certfile : bytes) (e : effect) : Prop :=
    match e with
    | EClientFlush _ => True
    | EClientWrap k c => k = keyfile /\ c = certfile
    | _ => False
    end.

  Lemma client_conn_wrap_spec keyfile certfile s s' r :
    client_conn_wrap client_flush client_handshake keyfile certfile s = (s', r) ->
    fs s' = fs s /\ up s' = up s /\ up_buf s' = up_buf s /\ up_wire s' = up_wire s /\ peer s' = peer s /\
    (exists t, tr s' = tr s ++ t /\ Forall (client_wrap_effect keyfile certfile) t /\
               (r = Ret tt -> In (EClientWrap keyfile certfile) t)) /\
    (exists w, cl_wire s' = cl_wire s ++ w /\ Forall (fun x => fst x = false) w /\
               concat (map snd w) ++ concat (cl_buf s') = concat (cl_buf s)) /\
    (r = Ret tt -> cl s' = ClTls /\ client_handshake keyfile certfile = None) /\
    (r <> Ret tt -> cl s' = cl s \/ cl s' = ClDead).
  Proof.
    unfold client_conn_wrap. intros H.
    apply mbind_inv in H as [(s1 & [] & H1 & H)|(e & H1 & ->)].
    - apply client_conn_flush_spec in H1 as (A1 & A2 & A3 & A4 & A5 & A6 & (t & Ht & Hall) & (w & Hw & Hplain & Hcat)).
      unfold mbind, emit, set_cl, raise in H.
      destruct (client_handshake keyfile certfile) as [e|] eqn:Hhs; simpl in H; inv H; simpl;
        (repeat split; auto; try congruence);
        try (exists (t ++ [EClientWrap keyfile certfile]); split; [rewrite Ht; now rewrite app_assoc|split;
               [apply Forall_app; split; [eapply Forall_impl; [|exact Hall]; intros []; simpl; tauto|repeat constructor]
               |intros _; apply in_or_app; right; now left]]);
        try (exists w; repeat split; auto).
    - apply client_conn_flush_spec in H1 as (A1 & A2 & A3 & A4 & A5 & A6 & (t & Ht & Hall) & (w & Hw & Hplain & Hcat)).
      repeat split; auto; try discriminate.
      + exists t. split; [assumption|split; [eapply Forall_impl; [|exact Hall]; intros []; simpl; tauto|discriminate]].
      + exists w; repeat split; auto.
  Qed.

  Lemma wrap_client_spec fl host h s s' r :
    text_ host = Ok h ->
    wrap_client_ fl host s = (s', r) ->
    up s' = up s /\ up_buf s' = up_buf s /\ up_wire s' = up_wire s /\ peer s' = peer s /\
    exists t, tr s' = tr s ++ t /\ Forall (client_side_effect fl h) t /\
      (forall p, mem_path p (fs s') = true ->
                 mem_path p (fs s) = true \/
                 exists c, In (EOpenssl c) t /\ bytes_eqb p (cmd_out c) = true /\ openssl_run c = RTrue) /\
      (exists w, cl_wire s' = cl_wire s ++ w /\ plain_wire w /\
                 concat (map snd w) ++ concat (cl_buf s') = concat (cl_buf s)) /\
      (r = Ret false ->
       cl s' = ClTls /\ up s = UpTls /\
       exists k cert, In (EClientWrap k cert) t /\ client_handshake k cert = None /\ mem_path cert (fs s') = true) /\
      (r <> Ret false -> cl s' = cl s \/ cl s' = ClDead) /\
      (forall dir, ca_cert_dir fl = Some dir -> mem_path (generated_cert_file_path dir h) (fs s) = true ->
                   Forall (fun e => is_openssl e = false) t).
  Proof.
    intros Htext. unfold wrap_client.
    assert (Hnil : forall A (l : list A), l = l ++ []) by (intros; now rewrite app_nil_r).
    assert (Htriv : forall (r0 : res bool), r0 <> Ret false ->
              up s = up s /\ up_buf s = up_buf s /\ up_wire s = up_wire s /\ peer s = peer s /\
              exists t, tr s = tr s ++ t /\ Forall (client_side_effect fl h) t /\
                (forall p, mem_path p (fs s) = true -> mem_path p (fs s) = true \/
                   exists c, In (EOpenssl c) t /\ bytes_eqb p (cmd_out c) = true /\ openssl_run c = RTrue) /\
                (exists w, cl_wire s = cl_wire s ++ w /\ plain_wire w /\
                           concat (map snd w) ++ concat (cl_buf s) = concat (cl_buf s)) /\
                (r0 = Ret false -> cl s = ClTls /\ up s = UpTls /\
                   exists k cert, In (EClientWrap k cert) t /\ client_handshake k cert = None /\ mem_path cert (fs s) = true) /\
                (r0 <> Ret false -> cl s = cl s \/ cl s = ClDead) /\
                (forall dir, ca_cert_dir fl = Some dir -> mem_path (generated_cert_file_path dir h) (fs s) = true ->
                   Forall (fun e => is_openssl e = false) t)).
    { intros r0 Hr0. repeat split; auto. exists []. split; [apply Hnil|]. split; [constructor|]. split; [auto|].
      split; [exists []; split; [apply Hnil|split; [constructor|reflexivity]]|].
      split; [intros; contradiction|]. split; [auto|]. intros; constructor. }
    unfold mbind at 1, get at 1. unfold assert_.
    intros H.
    apply mbind_inv in H as [(s1 & [] & H1 & H)|(e & H1 & ->)].
    2:{ unfold ret, raise in H1. match type of H1 with (if ?c then _ else _) _ = _ => destruct c end; inv H1.
        apply Htriv; discriminate. }
    assert (s1 = s) as -> by (unfold ret, raise in H1; match type of H1 with (if ?c then _ else _) _ = _ => destruct c end; now inv H1).
    clear H1.
    apply mbind_inv in H as [(s1 & [] & H1 & H)|(e & H1 & ->)].
    2:{ unfold ret, raise in H1. match type of H1 with (if ?c then _ else _) _ = _ => destruct c end; inv H1.
        apply Htriv; discriminate. }
    assert (s1 = s /\ up s = UpTls) as (-> & Hup).
    { unfold ret, raise in H1. match type of H1 with (if ?c then _ else _) _ = _ => destruct c eqn:Hc end; inv H1.
      split; [reflexivity|].
      match goal with Hc : match up ?x with _ => _ end = true |- _ => destruct (up x); try discriminate; reflexivity end. }
    clear H1.
    destruct (ca_signing_key_file fl) as [keyfile|] eqn:Hkey; [|inv H; apply Htriv; discriminate].
    unfold catch in H.
    match type of H with (match ?m with _ => _ end) = _ => destruct m as [s2 r2] eqn:Hm end.
    apply mbind_inv in Hm as [(s3 & cert & H3 & Hm)|(e & H3 & ->)].
    - (* certificate available *)
      eapply generate_upstream_certificate_spec in H3 as (A1 & A2 & A3 & A4 & A5 & A6 & A7 & t1 & Ht1 & Hall1 & Hgrow1 & Hpath & Hcache); eauto.
      destruct (Hpath _ eq_refl) as (dir & Hdir & -> & Hexists).
      apply mbind_inv in Hm as [(s4 & [] & H4 & Hm)|(e & H4 & ->)].
      + apply client_conn_wrap_spec in H4 as (B1 & B2 & B3 & B4 & B5 & (t2 & Ht2 & Hall2 & Hin2) & (w & Hw & Hplain & Hcat) & Hok & _).
        unfold ret in Hm. inv Hm. inv H.
        destruct (Hok eq_refl) as (Hcl & Hhs).
        split; [congruence|]. split; [congruence|]. split; [congruence|]. split; [congruence|].
        exists (t1 ++ t2). split; [rewrite Ht2, Ht1; now rewrite app_assoc|].
        split.
        { apply Forall_app; split.
          - eapply Forall_impl; [|exact Hall1]. intros [] He; simpl in *; tauto.
          - eapply Forall_impl; [|exact Hall2]. intros [] He; simpl in *; try tauto.
            destruct He as (-> & ->). split; [assumption|]. exists dir. auto. }
        split.
        { intros p Hp. rewrite B1 in Hp. apply Hgrow1 in Hp as [Hp|(c & Hin & Hc)]; [now left|right].
          exists c. split; [apply in_or_app; now left|assumption]. }
        split; [exists w; split; [congruence|split; [assumption|congruence]]|].
        split.
        { intros _. split; [assumption|]. split; [assumption|].
          exists keyfile, (generated_cert_file_path dir h). split; [apply in_or_app; right; auto|].
          split; [assumption|]. now rewrite B1. }
        split; [intros Hne; now elim Hne|].
        intros d Hd Hc. rewrite Hdir in Hd. inv Hd. destruct (Hcache _ Hdir Hc) as (-> & _). simpl.
        eapply Forall_impl; [|exact Hall2]. intros [] He; simpl in *; tauto.
      + (* flush or handshake raised *)
        apply client_conn_wrap_spec in H4 as (B1 & B2 & B3 & B4 & B5 & (t2 & Ht2 & Hall2 & Hin2) & (w & Hw & Hplain & Hcat) & _ & Hbad).
        assert (Hs' : (s', r) = (s2, Raise e) \/ (s', r) = (s2, Ret true)).
        { repeat (case_match_hyp H); inv H; auto. }
        assert (Hcommon :
          up s2 = up s /\ up_buf s2 = up_buf s /\ up_wire s2 = up_wire s /\ peer s2 = peer s /\
          exists t, tr s2 = tr s ++ t /\ Forall (client_side_effect fl h) t /\
            (forall p, mem_path p (fs s2) = true -> mem_path p (fs s) = true \/
               exists c, In (EOpenssl c) t /\ bytes_eqb p (cmd_out c) = true /\ openssl_run c = RTrue) /\
            (exists w, cl_wire s2 = cl_wire s ++ w /\ plain_wire w /\
                       concat (map snd w) ++ concat (cl_buf s2) = concat (cl_buf s)) /\
            (cl s2 = cl s \/ cl s2 = ClDead) /\
            (forall dir, ca_cert_dir fl = Some dir -> mem_path (generated_cert_file_path dir h) (fs s) = true ->
               Forall (fun e => is_openssl e = false) t)).
        { split; [congruence|]. split; [congruence|]. split; [congruence|]. split; [congruence|].
          exists (t1 ++ t2). split; [rewrite Ht2, Ht1; now rewrite app_assoc|].
          split.
          { apply Forall_app; split.
            - eapply Forall_impl; [|exact Hall1]. intros [] He; simpl in *; tauto.
            - eapply Forall_impl; [|exact Hall2]. intros [] He; simpl in *; try tauto.
              destruct He as (-> & ->). split; [assumption|]. exists dir. auto. }
          split.
          { intros p Hp. rewrite B1 in Hp. apply Hgrow1 in Hp as [Hp|(c & Hin & Hc)]; [now left|right].
            exists c. split; [apply in_or_app; now left|assumption]. }
          split; [exists w; split; [congruence|split; [assumption|congruence]]|].
          split; [destruct (Hbad ltac:(discriminate)) as [Hc|Hc]; [left; congruence|now right]|].
          intros d Hd Hc. rewrite Hdir in Hd. inv Hd. destruct (Hcache _ Hdir Hc) as (-> & _). simpl.
          eapply Forall_impl; [|exact Hall2]. intros [] He; simpl in *; tauto. }
        destruct Hcommon as (C1 & C2 & C3 & C4 & t & Ct & Call & Cgrow & Cw & Ccl & Ccache).
        destruct Hs' as [Hs'|Hs']; inv Hs'; (repeat split; auto); exists t;
          (split; [assumption|]); (split; [assumption|]); (split; [assumption|]); (split; [assumption|]);
          (split; [discriminate|]); split; auto.
    - (* certificate generation raised *)
      eapply generate_upstream_certificate_spec in H3 as (A1 & A2 & A3 & A4 & A5 & A6 & A7 & t1 & Ht1 & Hall1 & Hgrow1 & Hpath & Hcache); eauto.
      assert (Hs' : (s', r) = (s2, Raise e) \/ (s', r) = (s2, Ret true)).
      { repeat (case_match_hyp H); inv H; auto. }
      assert (Hcommon :
        up s2 = up s /\ up_buf s2 = up_buf s /\ up_wire s2 = up_wire s /\ peer s2 = peer s /\
        exists t, tr s2 = tr s ++ t /\ Forall (client_side_effect fl h) t /\
          (forall p, mem_path p (fs s2) = true -> mem_path p (fs s) = true \/
             exists c, In (EOpenssl c) t /\ bytes_eqb p (cmd_out c) = true /\ openssl_run c = RTrue) /\
          (exists w, cl_wire s2 = cl_wire s ++ w /\ plain_wire w /\
                     concat (map snd w) ++ concat (cl_buf s2) = concat (cl_buf s)) /\
          (cl s2 = cl s \/ cl s2 = ClDead) /\
          (forall dir, ca_cert_dir fl = Some dir -> mem_path (generated_cert_file_path dir h) (fs s) = true ->
             Forall (fun e => is_openssl e = false) t)).
      { repeat split; auto. exists t1. split; [assumption|].
        split; [eapply Forall_impl; [|exact Hall1]; intros [] He; simpl in *; tauto|].
        split; [assumption|].
        split; [exists []; split; [rewrite A3; apply Hnil|split; [constructor|simpl; congruence]]|].
        split; [left; assumption|].
        intros d Hd Hc. destruct (Hcache _ Hd Hc) as (-> & _). constructor. }
      destruct Hcommon as (C1 & C2 & C3 & C4 & t & Ct & Call & Cgrow & Cw & Ccl & Ccache).
      destruct Hs' as [Hs'|Hs']; inv Hs'; (repeat split; auto); exists t;
        (split; [assumption|]); (split; [assumption|]); (split; [assumption|]); (split; [assumption|]);
        (split; [discriminate|]); split; auto.
  Qed.

  (* ================================================================ on_request_complete *)
  (* the state once the origin is connected and the 200 reply is queued *)
  Definition connected_pst (fs0 : list bytes) (h : bytes) (port : N) : pst :=
    mkPst [EConnect h port; EClientQueue K200] fs0 ClPlain [K200] [] UpPlain [] [] None.

  Lemma orc_connected fl host h port answers fs0 :
    text_ host = Ok h -> host <> [] -> port <> 0 -> connect h port = None ->
    on_request_complete_ fl host port answers (init_pst fs0) =
    if tls_intercept_enabled_ fl answers then intercept_ fl host (connected_pst fs0 h port)
    else (connected_pst fs0 h port, Ret (RetBool false)).
  Proof.
    intros Htext Hhost Hport Hconn.
    unfold on_request_complete, connect_upstream, client_queue, catch, mbind, text_m, emit, get, set_up, set_cl_buf, ret, raise, init_pst.
    destruct host as [|x host']; [congruence|]. apply N.eqb_neq in Hport. rewrite Hport. simpl.
    rewrite Htext. simpl. rewrite Hconn. simpl. destruct (tls_intercept_enabled_ fl answers); reflexivity.
  Qed.

  (* no origin connection: an HttpProtocolException (502 or nothing) or a decoding error, nothing else happened *)
  Lemma orc_not_connected fl host port answers fs0 :
    (host = [] \/ port = 0 \/ (exists e, text_ host = Err e) \/ exists h e, text_ host = Ok h /\ connect h port = Some e) ->
    exists t e, on_request_complete_ fl host port answers (init_pst fs0) =
                (mkPst t fs0 ClPlain [] [] UpNone [] [] None, Raise e) /\
                (e = HttpProtocolException_ \/ e = ProxyConnectionFailed \/ e = UnicodeDecodeError_) /\
                (t = [] \/ exists h, text_ host = Ok h /\ t = [EConnect h port]).
  Proof.
    intros Hcase.
    unfold on_request_complete, connect_upstream, client_queue, catch, mbind, text_m, emit, get, set_up, set_cl_buf, ret, raise, init_pst.
    destruct host as [|x host'].
    { simpl. eexists _, _. split; [reflexivity|]. auto. }
    destruct (port =? 0) eqn:Hp; simpl.
    { eexists _, _. split; [reflexivity|]. auto. }
    destruct (text_ (x :: host')) as [h|e0] eqn:Htext; simpl.
    - destruct (connect h port) as [e|] eqn:Hc; simpl.
      + eexists _, _. split; [reflexivity|]. split; [auto|]. right. eauto.
      + exfalso. destruct Hcase as [Hc0|[Hc0|[(e & Hc0)|(h' & e & Hc0 & Hc1)]]]; try congruence.
        apply N.eqb_neq in Hp. congruence.
    - eexists _, _. split; [reflexivity|]. auto.
  Qed.

  Lemma intercept_unfold fl host s :
    intercept_ fl host s =
    match wrap_server_ fl host s with
    | (s1, Ret true) => (s1, Ret (RetBool true))
    | (s1, Ret false) =>
        match wrap_client_ fl host s1 with
        | (s2, Ret true) => (s2, Ret (RetBool true))
        | (s2, Ret false) => (s2, Ret RetSocket)
        | (s2, Raise e) => (s2, Raise e)
        end
    | (s1, Raise e) => (s1, Raise e)
    end.
  Proof.
    unfold intercept, mbind, ret.
    destruct (wrap_server_ fl host s) as [s1 [[]|e]]; try reflexivity.
    destruct (wrap_client_ fl host s1) as [s2 [[]|e]]; reflexivity.
  Qed.

  (* ================================================================ the relay steps *)
  Lemma map_snd_tag (b : bool) (l : list bytes) : map snd (map (fun d => (b, d)) l) = l.
  Proof. induction l as [|x t IH]; simpl; congruence. Qed.

  Lemma step_closed fl h ev : mode h = Closed -> step_ fl h ev = h.
  Proof. intros Hm. unfold step. now rewrite Hm. Qed.

  Lemma fold_closed fl evs h : mode h = Closed -> fold_left (step_ fl) evs h = h.
  Proof. revert h. induction evs as [|ev t IH]; intros h Hm; simpl; [reflexivity|]. rewrite step_closed; auto. Qed.

  (* no step performs any externally visible call other than socket I/O: the trace, the files and the
     kind of both connections are fixed once the CONNECT request has been handled *)
  Lemma step_fixed fl h ev :
    tr (ps (step_ fl h ev)) = tr (ps h) /\ fs (ps (step_ fl h ev)) = fs (ps h) /\
    cl (ps (step_ fl h ev)) = cl (ps h) /\ up (ps (step_ fl h ev)) = up (ps h).
  Proof.
    unfold step, on_client_data, read_from_descriptors, teared, escape, with_ps, with_mode, mbind, set_up_buf, set_cl_buf, set_cl_wire, set_up_wire.
    destruct (mode h), ev; simpl; auto;
      repeat (case_match_goal; simpl; auto).
  Qed.

  Lemma fold_fixed fl evs h :
    tr (ps (fold_left (step_ fl) evs h)) = tr (ps h) /\ fs (ps (fold_left (step_ fl) evs h)) = fs (ps h) /\
    cl (ps (fold_left (step_ fl) evs h)) = cl (ps h) /\ up (ps (fold_left (step_ fl) evs h)) = up (ps h).
  Proof.
    revert h. induction evs as [|ev t IH]; intros h; simpl; [auto|].
    destruct (IH (step_ fl h ev)) as (-> & -> & -> & ->). apply step_fixed.
  Qed.


  (* ================================================================ bad upstream: nothing is relayed *)
  Definition after_bad_handshake (fs0 : list bytes) (fl : flags) (h : bytes) (port : N) : pst :=
    mkPst [EConnect h port; EClientQueue K200; EUpstreamWrap (policy_call fl h)] fs0 ClPlain [K200] [] UpDead [] [] None.

  Lemma pst_eta s : s = mkPst (tr s) (fs s) (cl s) (cl_buf s) (cl_wire s) (up s) (up_buf s) (up_wire s) (peer s).
  Proof. destruct s; reflexivity. Qed.

  Lemma hc_handshake_raises fl host h port answers fs0 p0 r0 e :
    text_ host = Ok h -> host <> [] -> port <> 0 -> connect h port = None ->
    tls_intercept_enabled_ fl answers = true ->
    handshake (policy_call fl h) = HsRaise e -> is_HttpProtocolException e = false ->
    let h1 := handle_connect_ fl host port answers (init_h fs0 p0 r0) in
    ps h1 = after_bad_handshake fs0 fl h port /\
    (mode h1 = MustFlush \/ mode h1 = ReadsTeared \/ mode h1 = Closed).
  Proof.
    intros Htext Hhost Hport Hconn Hen Hhs Hnot. unfold handle_connect. simpl ps.
    rewrite (orc_connected fl host h port answers fs0 Htext Hhost Hport Hconn), Hen, intercept_unfold.
    destruct (wrap_server_ fl host (connected_pst fs0 h port)) as [s1 r1] eqn:Hws.
    apply wrap_server_spec in Hws as (A1 & A2 & A3 & A4 & A5 & A6 & Hr & Hpeer). simpl in *.
    assert (Hs1 : up s1 = UpDead -> tr s1 = [EConnect h port; EClientQueue K200; EUpstreamWrap (policy_call fl h)] ->
                  peer s1 = None -> s1 = after_bad_handshake fs0 fl h port).
    { intros Hu Ht Hp. rewrite (pst_eta s1). unfold after_bad_handshake. congruence. }
    destruct r1 as [[]|e1].
    - (* do_close *)
      destruct Hr as (h' & e' & Ht' & Hh' & Hssl & Hup & Htr). rewrite Htext in Ht'. injection Ht' as <-.
      assert (s1 = after_bad_handshake fs0 fl h port) as -> by (apply Hs1; auto; apply Hpeer; discriminate).
      unfold after_handle_data_true. simpl. auto.
    - destruct Hr as (h' & p & Ht' & Hh' & _). rewrite Htext in Ht'. injection Ht' as <-. congruence.
    - destruct Hr as [([Hu|(e0 & He0)] & _)|(h' & Ht' & Hh' & Hssl & Hup & Htr)]; try discriminate; try congruence.
      rewrite Htext in Ht'. injection Ht' as <-. rewrite Hhs in Hh'. injection Hh' as <-. rewrite Hnot.
      rewrite (not_ssl_not_wantread _ Hssl).
      assert (s1 = after_bad_handshake fs0 fl h port) as -> by (apply Hs1; auto; apply Hpeer; discriminate).
      destruct (is_OSError e); unfold after_reads_teared; simpl; auto.
  Qed.

  (* one flush never loses or reorders a byte *)
  Lemma conn_flush_sent max_send buf o data buf' :
    conn_flush max_send buf o = FsSent data buf' -> data ++ concat buf' = concat buf.
  Proof.
    unfold conn_flush. destruct buf as [|mv rest]; [discriminate|].
    destruct o as [k|e]; [|destruct (is_BlockingIOError e); discriminate].
    intros H. injection H as <- <-. simpl.
    set (sent := N.min k _).
    destruct (sent =? len mv) eqn:Hk; simpl.
    - apply N.eqb_eq in Hk. rewrite Hk, take_len. reflexivity.
    - rewrite app_assoc, take_drop. reflexivity.
  Qed.

  Lemma conn_flush_raise max_send buf o e :
    conn_flush max_send buf o = FsRaise e -> o = SendRaise e /\ is_BlockingIOError e = false.
  Proof.
    unfold conn_flush. destruct buf as [|mv rest]; [discriminate|].
    destruct o as [k|e0]; [discriminate|]. destruct (is_BlockingIOError e0) eqn:Hb; [discriminate|].
    intros H. injection H as <-. auto.
  Qed.

  (* the states from which no application byte can move any more *)
  Definition dead_end (tr0 : trace) (h : hstate PS RS) : Prop :=
    let s := ps h in
    up s = UpDead /\ up_buf s = [] /\ up_wire s = [] /\ cl s = ClPlain /\ tr s = tr0 /\
    concat (map snd (cl_wire s)) ++ concat (cl_buf s) = K200 /\ plain_wire (cl_wire s) /\
    (mode h = MustFlush \/ mode h = ReadsTeared \/ mode h = WritesTeared \/ mode h = Closed) /\
    (cl_buf s = [] -> mode h = Closed).

  Lemma dead_end_step fl tr0 h ev :
    dead_end tr0 h -> dead_end tr0 (step_ fl h ev) /\ (is_FlushClient ev = true -> mode (step_ fl h ev) = Closed).
  Proof.
    intros (Hup & Hub & Huw & Hcl & Htr & Hstream & Hplain & Hmode & Hdone).
    assert (Hd : dead_end tr0 h) by (repeat split; assumption).
    destruct (mode h) eqn:Hm.
    1: destruct Hmode as [|[|[|]]]; discriminate.
    4: (unfold step; rewrite Hm; split; [assumption|auto]).
    all: unfold step; rewrite Hm.
    all: destruct ev as [a raw|a raw| | |o|o|e|e|]; simpl; rewrite ?Hup, ?Hcl; simpl.
    all: try (split; [exact Hd|discriminate]).
    all: assert (Hclosed : forall esc, dead_end tr0 (mkH (ps h) Closed esc (pipe h) (resp h)))
           by (intros esc; unfold dead_end; simpl; repeat split; auto).
    all: assert (Hplain1 : forall d, plain_wire (cl_wire (ps h) ++ [(false, d)]))
           by (intros d; apply Forall_app; split; [assumption|repeat constructor]).
    all: match goal with
         | |- context [conn_flush] =>
             (* ClientWrite *)
             destruct (conn_flush (max_sendbuf_size fl) (cl_buf (ps h)) o) as [|data buf'|e] eqn:Hf;
             [split; [exact Hd|discriminate]
             |apply conn_flush_sent in Hf; split; [|discriminate];
              assert (Hs : concat (map snd (cl_wire (ps h) ++ [(false, data)])) ++ concat buf' = K200)
                by (rewrite map_app, concat_app; simpl; rewrite app_nil_r, <- app_assoc, Hf; exact Hstream);
              destruct buf' as [|b0 rest0]; unfold dead_end, with_mode, with_ps, mbind, set_cl_wire, set_cl_buf; simpl;
              repeat split; auto; discriminate
             |destruct (is_SSLWantWriteError e); [split; [exact Hd|discriminate]|];
              split; [|discriminate]; destruct (is_OSError e); [apply (Hclosed (escaped h))|apply Hclosed]]
         | _ =>
             (* FlushClient *)
             destruct (cl_buf (ps h)) as [|b rest] eqn:Hbuf;
             [specialize (Hdone eq_refl); discriminate|];
             split; [|reflexivity];
             unfold dead_end, with_mode, with_ps, mbind, set_cl_wire, set_cl_buf; simpl;
             rewrite map_app, concat_app; simpl; rewrite map_snd_tag, app_nil_r;
             repeat split; auto;
             apply Forall_app; split; [assumption|]; constructor; [reflexivity|];
             clear; induction rest; constructor; auto
         end.
  Qed.

  Lemma dead_end_fold fl tr0 evs h :
    dead_end tr0 h ->
    dead_end tr0 (fold_left (step_ fl) evs h) /\
    (existsb is_FlushClient evs = true -> mode (fold_left (step_ fl) evs h) = Closed).
  Proof.
    revert h. induction evs as [|ev t IH]; intros h Hd; simpl; [split; [assumption|discriminate]|].
    destruct (dead_end_step fl tr0 h ev Hd) as (Hd' & Hfl).
    destruct (IH _ Hd') as (Hd'' & Hfl'). split; [assumption|].
    intros Hex. apply orb_true_iff in Hex as [Hex|Hex]; [|auto].
    rewrite fold_closed; auto.
  Qed.

  (* If the upstream handshake raises anything, no byte of client data is ever queued or sent to the
     origin, the client only ever receives the proxy's own CONNECT reply in plaintext, no certificate
     is generated or presented, and the connection is gone as soon as that reply is flushed. *)
  Theorem no_relay_when_handshake_raises fl host h port answers fs0 p0 r0 evs e :
    text_ host = Ok h -> host <> [] -> port <> 0 -> connect h port = None ->
    tls_intercept_enabled_ fl answers = true ->
    handshake (policy_call fl h) = HsRaise e -> is_HttpProtocolException e = false ->
    let hf := run_ fl host port answers fs0 p0 r0 evs in
    up_buf (ps hf) = [] /\ up_wire (ps hf) = [] /\
    concat (map snd (cl_wire (ps hf))) ++ concat (cl_buf (ps hf)) = K200 /\ plain_wire (cl_wire (ps hf)) /\
    cl (ps hf) = ClPlain /\ up (ps hf) = UpDead /\
    tr (ps hf) = [EConnect h port; EClientQueue K200; EUpstreamWrap (policy_call fl h)] /\
    mode hf <> Running /\
    (existsb is_FlushClient evs = true -> mode hf = Closed).
  Proof.
    intros Htext Hhost Hport Hconn Hen Hhs Hnot. unfold run.
    destruct (hc_handshake_raises fl host h port answers fs0 p0 r0 e Htext Hhost Hport Hconn Hen Hhs Hnot) as (Hps & Hmode).
    set (h1 := handle_connect_ fl host port answers (init_h fs0 p0 r0)) in *.
    assert (Hd : dead_end [EConnect h port; EClientQueue K200; EUpstreamWrap (policy_call fl h)] h1).
    { unfold dead_end. rewrite Hps. unfold after_bad_handshake. simpl. rewrite app_nil_r.
      split; [reflexivity|]. split; [reflexivity|]. split; [reflexivity|]. split; [reflexivity|]. split; [reflexivity|].
      split; [reflexivity|]. split; [constructor|]. split; [|discriminate].
      destruct Hmode as [Hm|[Hm|Hm]]; auto. }
    destruct (dead_end_fold fl _ evs h1 Hd) as ((Hup & Hub & Huw & Hcl & Htr & Hstream & Hplain & Hm & _) & Hfl).
    repeat split; auto. destruct Hm as [Hm|[Hm|[Hm|Hm]]]; rewrite Hm; discriminate.
  Qed.

  (* ... in particular when the origin's certificate does not verify and verification is on *)
  Theorem no_relay_on_bad_upstream chain_ok name_ok fl host h port answers fs0 p0 r0 evs :
    openssl_spec handshake chain_ok name_ok ->
    insecure_tls_interception fl = false ->
    tls_intercept_enabled_ fl answers = true ->
    text_ host = Ok h -> host <> [] -> port <> 0 -> connect h port = None ->
    (chain_ok (ca_file fl) = false \/ name_ok (strip_brackets h) = false) ->
    let hf := run_ fl host port answers fs0 p0 r0 evs in
    up_buf (ps hf) = [] /\ up_wire (ps hf) = [] /\
    concat (map snd (cl_wire (ps hf))) ++ concat (cl_buf (ps hf)) = K200 /\ plain_wire (cl_wire (ps hf)) /\
    cl (ps hf) = ClPlain /\ up (ps hf) = UpDead /\
    tr (ps hf) = [EConnect h port; EClientQueue K200; EUpstreamWrap (policy_call fl h)] /\
    mode hf <> Running /\
    (existsb is_FlushClient evs = true -> mode hf = Closed).
  Proof.
    intros (Hchain & Hname) Hsec Hen Htext Hhost Hport Hconn Hbad.
    apply no_relay_when_handshake_raises with (e := SSLCertVerificationError); auto.
    unfold policy_call. rewrite Hsec. simpl.
    destruct Hbad as [Hbad|Hbad].
    - apply Hchain; auto.
    - eapply Hname; simpl; eauto.
  Qed.

  (* ================================================================ what handle_connect can do at all *)
  Definition allowed_effect (fl : flags) (host : bytes) (port : N) (e : effect) : Prop :=
    match e with
    | EConnect h' p => text_ host = Ok h' /\ p = port
    | EClientQueue pkt => pkt = K200 \/ pkt = bad_gateway_pkt fl
    | EUpstreamWrap c => exists h, text_ host = Ok h /\ c = policy_call fl h
    | e => exists h, text_ host = Ok h /\ client_side_effect fl h e
    end.

  Lemma client_side_allowed fl host port h t :
    text_ host = Ok h -> Forall (client_side_effect fl h) t ->
    Forall (allowed_effect fl host port) t /\ count_up_wraps t = 0%nat.
  Proof.
    intros Htext Hall. induction Hall as [|e t He Hall IH]; [split; [constructor|reflexivity]|].
    destruct IH as (IH1 & IH2). split.
    - constructor; [|assumption]. destruct e; simpl in *; try contradiction; eauto.
    - unfold count_up_wraps in *. destruct e; simpl in *; try contradiction; assumption.
  Qed.

  Lemma connected_dec host port :
    (exists h, text_ host = Ok h /\ host <> [] /\ port <> 0 /\ connect h port = None) \/
    (host = [] \/ port = 0 \/ (exists e, text_ host = Err e) \/ exists h e, text_ host = Ok h /\ connect h port = Some e).
  Proof.
    destruct host as [|x t]; [right; auto|].
    destruct (N.eq_dec port 0) as [->|Hp]; [right; auto|].
    destruct (text_ (x :: t)) as [h|e] eqn:Ht; [|right; right; right; left; eauto].
    destruct (connect h port) as [e|] eqn:Hc; [right; right; right; right; eauto|].
    left. exists h. repeat split; auto. discriminate.
  Qed.

  Lemma orc_trace fl host port answers fs0 s' r :
    on_request_complete_ fl host port answers (init_pst fs0) = (s', r) ->
    Forall (allowed_effect fl host port) (tr s') /\ (count_up_wraps (tr s') <= 1)%nat.
  Proof.
    intros H. destruct (connected_dec host port) as [(h & Htext & Hhost & Hport & Hconn)|Hnc].
    - rewrite (orc_connected fl host h port answers fs0 Htext Hhost Hport Hconn) in H.
      assert (Hbase : Forall (allowed_effect fl host port) (tr (connected_pst fs0 h port)) /\
                      count_up_wraps (tr (connected_pst fs0 h port)) = 0%nat).
      { split; [|reflexivity]. repeat constructor; simpl; auto. }
      destruct Hbase as (Hb1 & Hb2).
      destruct (tls_intercept_enabled_ fl answers).
      2:{ inv H. split; [assumption|]. rewrite Hb2. auto. }
      rewrite intercept_unfold in H.
      destruct (wrap_server_ fl host (connected_pst fs0 h port)) as [s1 r1] eqn:Hws.
      apply wrap_server_spec in Hws as (_ & _ & _ & _ & _ & _ & Hr & _).
      assert (Hs1 : Forall (allowed_effect fl host port) (tr s1) /\ (count_up_wraps (tr s1) <= 1)%nat).
      { assert (Hext : forall h', text_ host = Ok h' ->
                  Forall (allowed_effect fl host port) (tr (connected_pst fs0 h port) ++ [EUpstreamWrap (policy_call fl h')]) /\
                  (count_up_wraps (tr (connected_pst fs0 h port) ++ [EUpstreamWrap (policy_call fl h')]) <= 1)%nat).
        { intros h' Hh'. split; [apply Forall_app; split; [assumption|repeat constructor; simpl; eauto]|].
          unfold count_up_wraps. rewrite filter_app, app_length. fold (count_up_wraps (tr (connected_pst fs0 h port))).
          rewrite Hb2. simpl. auto. }
        destruct r1 as [[]|e1].
        - destruct Hr as (h' & e' & Ht' & _ & _ & _ & ->). auto.
        - destruct Hr as (h' & p & Ht' & _ & _ & _ & ->). auto.
        - destruct Hr as [(_ & _ & ->)|(h' & Ht' & _ & _ & _ & ->)]; [|auto].
          split; [assumption|]. rewrite Hb2. auto. }
      destruct Hs1 as (Hs1a & Hs1b).
      destruct r1 as [[]|e1]; try (inv H; auto; fail).
      destruct (wrap_client_ fl host s1) as [s2 r2] eqn:Hwc.
      eapply wrap_client_spec in Hwc as (_ & _ & _ & _ & t & Ht & Hall & _); eauto.
      destruct (client_side_allowed fl host port h t Htext Hall) as (Hta & Htb).
      assert (Hs2 : Forall (allowed_effect fl host port) (tr s2) /\ (count_up_wraps (tr s2) <= 1)%nat).
      { rewrite Ht. split; [apply Forall_app; auto|].
        unfold count_up_wraps in *. rewrite filter_app, app_length, Htb. lia. }
      destruct r2 as [[]|e2]; inv H; auto.
    - destruct (orc_not_connected fl host port answers fs0 Hnc) as (t & e & Heq & _ & Ht).
      rewrite Heq in H. inv H. simpl.
      destruct Ht as [->|(h & Htext & ->)]; [split; [constructor|auto]|].
      split; [repeat constructor; simpl; auto|]. unfold count_up_wraps. simpl. auto.
  Qed.

  (* handle_connect adds at most the queuing of the 502 reply, and never changes the kind of a connection *)
  Lemma hc_after_orc fl host port answers fs0 p0 r0 s' r :
    on_request_complete_ fl host port answers (init_pst fs0) = (s', r) ->
    let h1 := handle_connect_ fl host port answers (init_h fs0 p0 r0) in
    cl (ps h1) = cl s' /\ up (ps h1) = up s' /\ fs (ps h1) = fs s' /\
    up_buf (ps h1) = up_buf s' /\ up_wire (ps h1) = up_wire s' /\ cl_wire (ps h1) = cl_wire s' /\
    pipe h1 = p0 /\ resp h1 = r0 /\
    (tr (ps h1) = tr s' /\ cl_buf (ps h1) = cl_buf s' \/
     r = Raise ProxyConnectionFailed /\ tr (ps h1) = tr s' ++ [EClientQueue (bad_gateway_pkt fl)] /\
     cl_buf (ps h1) = cl_buf s' ++ [bad_gateway_pkt fl]) /\
    ((r = Ret RetSocket \/ r = Ret (RetBool false)) -> mode h1 = Running).
  Proof.
    intros H. unfold handle_connect. simpl ps. rewrite H.
    destruct r as [[[]|]|e]; simpl.
    - repeat split; auto; try (intros [|]; discriminate).
    - repeat split; auto.
    - repeat split; auto.
    - destruct (is_HttpProtocolException e) eqn:Hhttp.
      + destruct e; try discriminate; simpl; repeat split; auto; try (intros [|]; discriminate).
      + destruct (is_SSLWantReadError e); [simpl; repeat split; auto; intros [|]; discriminate|].
        destruct (is_OSError e); simpl; repeat split; auto; try (intros [|]; discriminate).
  Qed.

  Lemma hc_trace fl host port answers fs0 p0 r0 :
    let h1 := handle_connect_ fl host port answers (init_h fs0 p0 r0) in
    Forall (allowed_effect fl host port) (tr (ps h1)) /\ (count_up_wraps (tr (ps h1)) <= 1)%nat.
  Proof.
    cbv zeta.
    destruct (on_request_complete_ fl host port answers (init_pst fs0)) as [s' r] eqn:H.
    destruct (orc_trace _ _ _ _ _ _ _ H) as (Ha & Hb).
    destruct (hc_after_orc fl host port answers fs0 p0 r0 s' r H) as (_ & _ & _ & _ & _ & _ & _ & _ & [(-> & _)|(_ & -> & _)] & _).
    - auto.
    - split; [apply Forall_app; split; [assumption|constructor; [simpl; right; reflexivity|constructor]]|].
      unfold count_up_wraps in *. rewrite filter_app, app_length. simpl. lia.
  Qed.

  (* ================================================================ the verification policy *)
  Theorem verify_policy fl host port answers fs0 p0 r0 evs :
    let hf := run_ fl host port answers fs0 p0 r0 evs in
    (forall c, In (EUpstreamWrap c) (tr (ps hf)) -> exists h, text_ host = Ok h /\ c = policy_call fl h) /\
    (count_up_wraps (tr (ps hf)) <= 1)%nat.
  Proof.
    cbv zeta. unfold run. destruct (fold_fixed fl evs (handle_connect_ fl host port answers (init_h fs0 p0 r0))) as (-> & _).
    destruct (hc_trace fl host port answers fs0 p0 r0) as (Ha & Hb). split; [|assumption].
    intros c Hin. rewrite Forall_forall in Ha. apply Ha in Hin. exact Hin.
  Qed.

  Lemma policy_call_fields fl h :
    let c := policy_call fl h in
    (wc_verify_mode c = CERT_NONE <-> insecure_tls_interception fl = true) /\
    (insecure_tls_interception fl = false -> wc_verify_mode c = CERT_REQUIRED /\ wc_check_hostname c = true) /\
    wc_server_hostname c = Some (strip_brackets h) /\
    wc_cafile c = ca_file fl /\ wc_extra_trust c = [] /\ wc_settings_default c = true.
  Proof.
    unfold policy_call. simpl. destruct (insecure_tls_interception fl); simpl; repeat split; auto; try discriminate.
  Qed.

  (* ================================================================ relaying: I/O events *)
  Lemma tagged_wire_plain w : Forall (fun x : bool * bytes => fst x = false) w -> plain_wire w.
  Proof. auto. Qed.

  (* Flushes, single writes (short, would-block) and would-block reads leave a running relay running,
     never touch the parsers, and only move bytes from a buffer to the wire of the same connection,
     tagged with the kind that connection has. *)
  Lemma io_step fl h ev :
    mode h = Running -> cl (ps h) <> ClDead -> up_fd_valid (up (ps h)) = true ->
    benign ev -> event_answers ev = None ->
    let h' := step_ fl h ev in
    mode h' = Running /\ pipe h' = pipe h /\ resp h' = resp h /\
    (exists wc, cl_wire (ps h') = cl_wire (ps h) ++ wc /\
                Forall (fun x => fst x = is_tls_cl (cl (ps h))) wc /\
                concat (map snd wc) ++ concat (cl_buf (ps h')) = concat (cl_buf (ps h))) /\
    (exists wu, up_wire (ps h') = up_wire (ps h) ++ wu /\
                Forall (fun x => fst x = is_tls_up (up (ps h))) wu /\
                concat (map snd wu) ++ concat (up_buf (ps h')) = concat (up_buf (ps h))).
  Proof.
    intros Hm Hcl Hup Hben Hans. cbv zeta. unfold step. rewrite Hm.
    assert (Hnil : forall A (l : list A), l = l ++ []) by (intros; now rewrite app_nil_r).
    assert (Same : mode h = Running /\ pipe h = pipe h /\ resp h = resp h /\
      (exists wc, cl_wire (ps h) = cl_wire (ps h) ++ wc /\ Forall (fun x => fst x = is_tls_cl (cl (ps h))) wc /\
                  concat (map snd wc) ++ concat (cl_buf (ps h)) = concat (cl_buf (ps h))) /\
      (exists wu, up_wire (ps h) = up_wire (ps h) ++ wu /\ Forall (fun x => fst x = is_tls_up (up (ps h))) wu /\
                  concat (map snd wu) ++ concat (up_buf (ps h)) = concat (up_buf (ps h)))).
    { repeat split; auto; exists []; (split; [apply Hnil|split; [constructor|reflexivity]]). }
    assert (Htag : forall (b : bool) (l : list bytes), Forall (fun x : bool * bytes => fst x = b) (map (fun d => (b, d)) l)).
    { intros b l. induction l; constructor; auto. }
    destruct ev as [a raw|a raw| | |o|o|e|e|]; try discriminate; simpl in Hben.
    - (* FlushClient *)
      destruct (cl (ps h)) eqn:Ec; try congruence;
        (destruct (cl_buf (ps h)) as [|b rest] eqn:Hbuf; [rewrite <- Ec, <- ?Hbuf in *; exact Same|]);
        unfold with_ps, mbind, set_cl_wire, set_cl_buf; simpl; (repeat split; auto);
        try (eexists; split; [reflexivity|split; [apply (Htag _ (b :: rest))|simpl; rewrite map_snd_tag, app_nil_r; reflexivity]]);
        exists []; (split; [apply Hnil|split; [constructor|reflexivity]]).
    - (* FlushUpstream *)
      rewrite Hup. unfold with_ps, mbind, set_up_wire, set_up_buf. simpl. repeat split; auto.
      + exists []. split; [apply Hnil|split; [constructor|reflexivity]].
      + eexists. split; [reflexivity|split; [apply Htag|]]. rewrite map_snd_tag, app_nil_r. reflexivity.
    - (* ClientWrite *)
      assert (Hc : forall c, c <> ClDead -> cl (ps h) = c ->
        let h' := match conn_flush (max_sendbuf_size fl) (cl_buf (ps h)) o with
                  | FsNoop => h
                  | FsSent data buf' =>
                      with_ps h (fst ((set_cl_wire (cl_wire (ps h) ++ [(is_tls_cl c, data)]) ;;; set_cl_buf buf') (ps h)))
                  | FsRaise e => if is_SSLWantWriteError e then h
                                 else if is_OSError e then with_mode h Closed else escape PS RS h e
                  end in
        mode h' = Running /\ pipe h' = pipe h /\ resp h' = resp h /\
        (exists wc, cl_wire (ps h') = cl_wire (ps h) ++ wc /\
                    Forall (fun x => fst x = is_tls_cl (cl (ps h))) wc /\
                    concat (map snd wc) ++ concat (cl_buf (ps h')) = concat (cl_buf (ps h))) /\
        (exists wu, up_wire (ps h') = up_wire (ps h) ++ wu /\
                    Forall (fun x => fst x = is_tls_up (up (ps h))) wu /\
                    concat (map snd wu) ++ concat (up_buf (ps h')) = concat (up_buf (ps h)))).
      { intros c Hc Ec. cbv zeta.
        destruct (conn_flush (max_sendbuf_size fl) (cl_buf (ps h)) o) as [|data buf'|e] eqn:Hf.
        - exact Same.
        - apply conn_flush_sent in Hf. unfold with_ps, mbind, set_cl_wire, set_cl_buf. simpl. repeat split; auto.
          + eexists. split; [reflexivity|split; [rewrite Ec; repeat constructor|simpl; rewrite app_nil_r; exact Hf]].
          + exists []. split; [apply Hnil|split; [constructor|reflexivity]].
        - apply conn_flush_raise in Hf as (-> & Hb). destruct Hben as [->| ->]; [discriminate|]. simpl. exact Same. }
      destruct (cl (ps h)) eqn:Ec; try congruence.
      + apply (Hc ClPlain); [discriminate|reflexivity].
      + apply (Hc ClTls); [discriminate|reflexivity].
    - (* UpstreamWrite *)
      rewrite Hup.
      destruct (conn_flush (max_sendbuf_size fl) (up_buf (ps h)) o) as [|data buf'|e] eqn:Hf.
      + exact Same.
      + apply conn_flush_sent in Hf. unfold with_ps, mbind, set_up_wire, set_up_buf. simpl. repeat split; auto.
        * exists []. split; [apply Hnil|split; [constructor|reflexivity]].
        * eexists. split; [reflexivity|split; [repeat constructor|simpl; rewrite app_nil_r; exact Hf]].
      + apply conn_flush_raise in Hf as (-> & Hb). destruct Hben as [->| ->]; [discriminate|]. simpl. exact Same.
    - (* ClientRecvRaise SSLWantReadError *)
      subst e. destruct (cl (ps h)); try congruence; exact Same.
    - subst e. rewrite Hup. simpl. exact Same.
    - contradiction.
  Qed.

  (* ================================================================ opt-out / interception off: opaque tunnel *)
  Definition tunnel_inv (cs us : bytes) (h : hstate PS RS) : Prop :=
    let s := ps h in
    mode h = Running /\ cl s = ClPlain /\ up s = UpPlain /\
    plain_wire (cl_wire s) /\ plain_wire (up_wire s) /\
    concat (map snd (up_wire s)) ++ concat (up_buf s) = cs /\
    concat (map snd (cl_wire s)) ++ concat (cl_buf s) = K200 ++ us.

  Lemma chunks_cons ev evs :
    client_chunks (ev :: evs) = client_chunks [ev] ++ client_chunks evs /\
    upstream_chunks (ev :: evs) = upstream_chunks [ev] ++ upstream_chunks evs.
  Proof. unfold client_chunks, upstream_chunks. simpl. rewrite !app_nil_r. auto. Qed.

  Lemma chunks_io ev : event_answers ev = None -> client_chunks [ev] = [] /\ upstream_chunks [ev] = [].
  Proof. destruct ev; simpl; try discriminate; auto. Qed.

  Lemma tunnel_step fl cs us h ev :
    tunnel_inv cs us h -> declined fl ev -> benign ev ->
    tunnel_inv (cs ++ concat (client_chunks [ev])) (us ++ concat (upstream_chunks [ev])) (step_ fl h ev).
  Proof.
    intros (Hm & Hcl & Hup & Hpc & Hpu & Hcs & Hus) Hdec Hben.
    destruct (event_answers ev) as [a|] eqn:Hans.
    - (* data events *)
      unfold step. rewrite Hm.
      destruct ev as [a' raw|a' raw| | |o|o|e|e|]; try discriminate; simpl in Hans; injection Hans as ->; simpl.
      + unfold on_client_data. rewrite Hup, (Hdec a eq_refl).
        unfold tunnel_inv, with_ps, set_up_buf. simpl. rewrite !app_nil_r, concat_app. simpl. rewrite !app_nil_r.
        repeat split; auto. rewrite app_assoc. congruence.
      + unfold read_from_descriptors. rewrite Hup. simpl. rewrite (Hdec a eq_refl).
        unfold tunnel_inv, with_ps, set_cl_buf. simpl. rewrite !app_nil_r, concat_app. simpl. rewrite !app_nil_r.
        repeat split; auto. rewrite app_assoc, Hus, app_assoc. reflexivity.
    - destruct (chunks_io ev Hans) as (-> & ->). simpl. rewrite !app_nil_r.
      assert (Hcl' : cl (ps h) <> ClDead) by (rewrite Hcl; discriminate).
      assert (Hup' : up_fd_valid (up (ps h)) = true) by (rewrite Hup; reflexivity).
      destruct (io_step fl h ev Hm Hcl' Hup' Hben Hans) as (Hm' & _ & _ & (wc & Hwc & Htc & Hcc) & (wu & Hwu & Htu & Hcu)).
      destruct (step_fixed fl h ev) as (_ & _ & Ecl & Eup).
      rewrite Hcl in Htc. rewrite Hup in Htu. simpl in Htc, Htu.
      unfold tunnel_inv. rewrite Ecl, Eup, Hwc, Hwu, !map_app, !concat_app, <- !app_assoc, Hcc, Hcu.
      repeat split; auto; apply Forall_app; auto.
  Qed.

  Lemma tunnel_fold fl evs cs us h :
    tunnel_inv cs us h -> Forall (declined fl) evs -> Forall benign evs ->
    tunnel_inv (cs ++ concat (client_chunks evs)) (us ++ concat (upstream_chunks evs)) (fold_left (step_ fl) evs h).
  Proof.
    revert cs us h. induction evs as [|ev t IH]; intros cs us h Hinv Hall Hben; cbn [fold_left].
    - unfold client_chunks, upstream_chunks. simpl. now rewrite !app_nil_r.
    - inversion Hall as [|? ? Hev Ht]; subst. inversion Hben as [|? ? Hbev Hbt]; subst.
      destruct (chunks_cons ev t) as (-> & ->). rewrite !concat_app, !app_assoc.
      apply IH; auto. now apply tunnel_step.
  Qed.

  (* When interception is off (a CA flag missing) or a plugin opts out - at the CONNECT and at every later
     call - the connection is an opaque tunnel: no TLS wrap, no certificate generation, and byte for byte, in
     order, what the client sends is what is sent/queued to the origin and what the origin sends is what the
     client gets after the 200 reply, all in plaintext (i.e. the bytes are the client's own TLS records,
     untouched) - whatever short writes and would-block answers the sockets give. *)
  Theorem optout_is_tunnel fl host h port answers fs0 p0 r0 evs :
    text_ host = Ok h -> host <> [] -> port <> 0 -> connect h port = None ->
    tls_intercept_enabled_ fl answers = false ->
    Forall (declined fl) evs -> Forall benign evs ->
    let hf := run_ fl host port answers fs0 p0 r0 evs in
    tr (ps hf) = [EConnect h port; EClientQueue K200] /\ fs (ps hf) = fs0 /\
    mode hf = Running /\ cl (ps hf) = ClPlain /\ up (ps hf) = UpPlain /\
    plain_wire (cl_wire (ps hf)) /\ plain_wire (up_wire (ps hf)) /\
    concat (map snd (up_wire (ps hf))) ++ concat (up_buf (ps hf)) = concat (client_chunks evs) /\
    concat (map snd (cl_wire (ps hf))) ++ concat (cl_buf (ps hf)) = K200 ++ concat (upstream_chunks evs).
  Proof.
    intros Htext Hhost Hport Hconn Hoff Hall Hben. cbv zeta. unfold run.
    set (h1 := handle_connect_ fl host port answers (init_h fs0 p0 r0)).
    assert (Hh1 : h1 = mkH (connected_pst fs0 h port) Running None p0 r0).
    { unfold h1, handle_connect. simpl ps.
      rewrite (orc_connected fl host h port answers fs0 Htext Hhost Hport Hconn), Hoff. reflexivity. }
    assert (Hinv : tunnel_inv [] [] h1).
    { rewrite Hh1. unfold tunnel_inv. simpl. rewrite !app_nil_r. repeat split; auto; constructor. }
    destruct (fold_fixed fl evs h1) as (Htr & Hfs & _ & _).
    pose proof (tunnel_fold fl evs [] [] h1 Hinv Hall Hben) as (Hm & Hcl & Hup & Hpc & Hpu & Hcs & Hus).
    rewrite Htr, Hfs. split; [rewrite Hh1; reflexivity|]. split; [rewrite Hh1; reflexivity|].
    rewrite !app_nil_l in *. repeat split; auto.
  Qed.

  (* ================================================================ an established interception *)
  Lemma intercepted_fold fl evs : forall h outs,
    established h -> Forall (engaged_at fl) evs -> Forall benign evs ->
    pipeline_outs pipeline_step (pipe h) (client_chunks evs) = Some outs ->
    let hf := fold_left (step_ fl) evs h in
    established hf /\
    exists wc wu,
      cl_wire (ps hf) = cl_wire (ps h) ++ wc /\ tls_wire wc /\
      up_wire (ps hf) = up_wire (ps h) ++ wu /\ tls_wire wu /\
      concat (map snd wu) ++ concat (up_buf (ps hf)) = concat (up_buf (ps h)) ++ concat outs /\
      concat (map snd wc) ++ concat (cl_buf (ps hf)) = concat (cl_buf (ps h)) ++ concat (upstream_chunks evs).
  Proof.
    induction evs as [|ev t IH]; intros h outs Hest Hall Hben Hpipe; cbn [fold_left].
    - unfold client_chunks in Hpipe. simpl in Hpipe. inv Hpipe.
      split; [assumption|]. exists [], []. unfold upstream_chunks. simpl. rewrite !app_nil_r.
      repeat split; auto; constructor.
    - inversion Hall as [|? ? Hev Ht]; subst. inversion Hben as [|? ? Hbev Hbt]; subst.
      destruct (chunks_cons ev t) as (Hc & Hu). rewrite Hc in Hpipe.
      destruct Hest as (Hm & Hcl & Hup).
      assert (Hstep : exists outs1 outs2 wc1 wu1,
                 outs = outs1 ++ outs2 /\
                 established (step_ fl h ev) /\
                 pipeline_outs pipeline_step (pipe (step_ fl h ev)) (client_chunks t) = Some outs2 /\
                 cl_wire (ps (step_ fl h ev)) = cl_wire (ps h) ++ wc1 /\ tls_wire wc1 /\
                 up_wire (ps (step_ fl h ev)) = up_wire (ps h) ++ wu1 /\ tls_wire wu1 /\
                 concat (map snd wu1) ++ concat (up_buf (ps (step_ fl h ev))) = concat (up_buf (ps h)) ++ concat outs1 /\
                 concat (map snd wc1) ++ concat (cl_buf (ps (step_ fl h ev))) = concat (cl_buf (ps h)) ++ concat (upstream_chunks [ev])).
      { destruct (event_answers ev) as [a|] eqn:Hans.
        - unfold step. rewrite Hm.
          destruct ev as [a' raw|a' raw| | |o|o|e|e|]; try discriminate; simpl in Hans; injection Hans as ->; simpl in *.
          + unfold on_client_data. rewrite Hup, (Hev a eq_refl).
            unfold client_chunks in Hpipe. simpl in Hpipe.
            destruct (pipeline_step (pipe h) raw) as [[p' o1]|] eqn:Hps; [|discriminate].
            destruct (pipeline_outs pipeline_step p' (flat_map _ t)) as [o2|] eqn:Hrest; [|discriminate].
            simpl in Hpipe. inv Hpipe.
            exists o1, o2, [], []. unfold established, upstream_chunks. simpl. rewrite !app_nil_r, concat_app.
            repeat split; auto; constructor.
          + unfold read_from_descriptors. rewrite Hup. simpl. rewrite (Hev a eq_refl).
            exists [], outs, [], []. unfold established, upstream_chunks. simpl. rewrite !app_nil_r, concat_app. simpl.
            rewrite !app_nil_r. repeat split; auto; constructor.
        - destruct (chunks_io ev Hans) as (Hc0 & Hu0). rewrite Hc0 in Hpipe. simpl in Hpipe.
          assert (Hcl' : cl (ps h) <> ClDead) by (rewrite Hcl; discriminate).
          assert (Hup' : up_fd_valid (up (ps h)) = true) by (rewrite Hup; reflexivity).
          destruct (io_step fl h ev Hm Hcl' Hup' Hbev Hans) as (Hm' & Hp' & Hr' & (wc & Hwc & Htc & Hcc) & (wu & Hwu & Htu & Hcu)).
          destruct (step_fixed fl h ev) as (_ & _ & Ecl & Eup).
          rewrite Hcl in Htc. rewrite Hup in Htu. simpl in Htc, Htu.
          exists [], outs, wc, wu. rewrite Hu0, Hp'. simpl. rewrite !app_nil_r.
          repeat split; auto; congruence. }
      destruct Hstep as (o1 & o2 & wc1 & wu1 & -> & Hest' & Hpipe' & Hcw & Htc & Huw & Htu & Hub & Hcb).
      destruct (IH _ _ Hest' Ht Hbt Hpipe') as (Hest'' & wc2 & wu2 & Hcw2 & Htc2 & Huw2 & Htu2 & Hub2 & Hcb2).
      split; [assumption|]. exists (wc1 ++ wc2), (wu1 ++ wu2).
      rewrite Hcw2, Hcw, Huw2, Huw, <- !app_assoc. repeat split; auto.
      + apply Forall_app; auto.
      + apply Forall_app; auto.
      + rewrite map_app, concat_app, <- app_assoc, Hub2, app_assoc, Hub, concat_app. now rewrite <- !app_assoc.
      + rewrite map_app, concat_app, <- app_assoc, Hcb2, app_assoc, Hcb, Hu, concat_app. now rewrite <- !app_assoc.
  Qed.

  (* ================================================================ when is anything TLS-wrapped? *)
  (* The client side is wrapped only on one path: origin connected, interception engaged, the upstream
     handshake succeeded under the policy settings, certificate available, client handshake succeeded. *)
  Lemma hc_client_tls fl host port answers fs0 p0 r0 :
    let h1 := handle_connect_ fl host port answers (init_h fs0 p0 r0) in
    cl (ps h1) = ClTls ->
    exists h p t,
      text_ host = Ok h /\ host <> [] /\ port <> 0 /\ connect h port = None /\
      tls_intercept_enabled_ fl answers = true /\
      handshake (policy_call fl h) = HsOk p /\
      tr (ps h1) = [EConnect h port; EClientQueue K200; EUpstreamWrap (policy_call fl h)] ++ t /\
      Forall (client_side_effect fl h) t /\
      mode h1 = Running /\ up (ps h1) = UpTls /\ up_buf (ps h1) = [] /\ up_wire (ps h1) = [] /\
      plain_wire (cl_wire (ps h1)) /\
      concat (map snd (cl_wire (ps h1))) ++ concat (cl_buf (ps h1)) = K200 /\
      (exists k cert, In (EClientWrap k cert) t /\ client_handshake k cert = None /\
                      mem_path cert (fs (ps h1)) = true) /\
      (forall pth, mem_path pth (fs (ps h1)) = true ->
                   mem_path pth fs0 = true \/
                   exists c, In (EOpenssl c) t /\ bytes_eqb pth (cmd_out c) = true /\ openssl_run c = RTrue) /\
      (forall dir, ca_cert_dir fl = Some dir -> mem_path (generated_cert_file_path dir h) fs0 = true ->
                   Forall (fun e => is_openssl e = false) t) /\
      pipe h1 = p0 /\ resp h1 = r0.
  Proof.
    cbv zeta.
    destruct (on_request_complete_ fl host port answers (init_pst fs0)) as [s' r] eqn:H.
    destruct (hc_after_orc fl host port answers fs0 p0 r0 s' r H) as (Ecl & Eup & Efs & Eub & Euw & Ecw & Ep & Er & Etr & Emode).
    rewrite Ecl, Eup, Efs, Eub, Euw, Ecw, Ep, Er. intros Htls.
    destruct (connected_dec host port) as [(h & Htext & Hhost & Hport & Hconn)|Hnc].
    2:{ destruct (orc_not_connected fl host port answers fs0 Hnc) as (t & e & Heq & _).
        rewrite Heq in H. inv H. discriminate. }
    rewrite (orc_connected fl host h port answers fs0 Htext Hhost Hport Hconn) in H.
    destruct (tls_intercept_enabled_ fl answers) eqn:Hen; [|inv H; discriminate].
    rewrite intercept_unfold in H.
    destruct (wrap_server_ fl host (connected_pst fs0 h port)) as [s1 r1] eqn:Hws.
    apply wrap_server_spec in Hws as (A1 & A2 & A3 & A4 & A5 & A6 & Hr & _). simpl in A1, A2, A3, A4, A5, A6.
    destruct r1 as [[]|e1]; try (inv H; congruence).
    destruct Hr as (h' & p & Ht' & Hhs & Hup1 & _ & Htr1). rewrite Htext in Ht'. injection Ht' as <-.
    destruct (wrap_client_ fl host s1) as [s2 r2] eqn:Hwc.
    eapply wrap_client_spec in Hwc as (B1 & B2 & B3 & _ & t & Ht & Hall & Hgrow & (w & Hw & Hplain & Hcat) & Hok & Hbad & Hcache); eauto.
    assert (r2 = Ret false) as ->.
    { destruct r2 as [[]|e2]; auto; inv H; destruct (Hbad ltac:(discriminate)); congruence. }
    inv H. destruct (Hok eq_refl) as (_ & _ & k & cert & Hin & Hhsc & Hmem).
    exists h, p, t. repeat split; auto.
    - destruct Etr as [(-> & _)|(Habs & _)]; [|discriminate]. rewrite Ht, Htr1. reflexivity.
    - congruence.
    - congruence.
    - congruence.
    - rewrite Hw, A4. exact Hplain.
    - destruct Etr as [(_ & ->)|(Habs & _)]; [|discriminate].
      rewrite Hw, A4. simpl. rewrite <- (app_nil_r K200). change (K200 ++ []) with (concat [K200]). rewrite <- A3. exact Hcat.
    - exists k, cert. auto.
  Qed.

  (* the upstream side is wrapped only after a handshake that succeeded under the policy settings *)
  Lemma hc_upstream_tls fl host port answers fs0 p0 r0 :
    let h1 := handle_connect_ fl host port answers (init_h fs0 p0 r0) in
    up (ps h1) = UpTls ->
    exists h p, text_ host = Ok h /\ handshake (policy_call fl h) = HsOk p.
  Proof.
    cbv zeta.
    destruct (on_request_complete_ fl host port answers (init_pst fs0)) as [s' r] eqn:H.
    destruct (hc_after_orc fl host port answers fs0 p0 r0 s' r H) as (_ & Eup & _).
    rewrite Eup. intros Htls.
    destruct (connected_dec host port) as [(h & Htext & Hhost & Hport & Hconn)|Hnc].
    2:{ destruct (orc_not_connected fl host port answers fs0 Hnc) as (t & e & Heq & _).
        rewrite Heq in H. inv H. discriminate. }
    rewrite (orc_connected fl host h port answers fs0 Htext Hhost Hport Hconn) in H.
    destruct (tls_intercept_enabled_ fl answers) eqn:Hen; [|inv H; discriminate].
    rewrite intercept_unfold in H.
    destruct (wrap_server_ fl host (connected_pst fs0 h port)) as [s1 r1] eqn:Hws.
    apply wrap_server_spec in Hws as (_ & _ & _ & _ & _ & _ & Hr & _).
    destruct r1 as [[]|e1].
    - destruct Hr as (h' & e' & _ & _ & _ & Hup & _). inv H. congruence.
    - destruct Hr as (h' & p & Ht' & Hhs & _). eauto.
    - inv H. destruct Hr as [(_ & Hup & _)|(h' & _ & _ & _ & Hup & _)]; simpl in *; congruence.
  Qed.

  (* wire entries are tagged with the kind the connection has, which never changes after the CONNECT *)
  Lemma step_wire_tags fl h ev :
    (forall x, In x (cl_wire (ps (step_ fl h ev))) -> In x (cl_wire (ps h)) \/ fst x = is_tls_cl (cl (ps h))) /\
    (forall x, In x (up_wire (ps (step_ fl h ev))) -> In x (up_wire (ps h)) \/ fst x = is_tls_up (up (ps h))).
  Proof.
    unfold step, on_client_data, read_from_descriptors, teared, escape, with_ps, with_mode, mbind, set_up_buf, set_cl_buf, set_cl_wire, set_up_wire.
    destruct (mode h), ev; simpl; auto;
      repeat (case_match_goal; simpl; auto);
      split; intros x Hx; auto;
      apply in_app_or in Hx as [Hx|Hx]; auto; right;
      try (destruct Hx as [<-|Hx]; [reflexivity|]);
      first [contradiction | apply in_map_iff in Hx as (d & <- & _); reflexivity].
  Qed.

  Lemma fold_wire_tags fl evs h :
    (forall x, In x (cl_wire (ps (fold_left (step_ fl) evs h))) -> In x (cl_wire (ps h)) \/ fst x = is_tls_cl (cl (ps h))) /\
    (forall x, In x (up_wire (ps (fold_left (step_ fl) evs h))) -> In x (up_wire (ps h)) \/ fst x = is_tls_up (up (ps h))).
  Proof.
    revert h. induction evs as [|ev t IH]; intros h; cbn [fold_left]; [auto|].
    destruct (IH (step_ fl h ev)) as (IHc & IHu).
    destruct (step_wire_tags fl h ev) as (Sc & Su).
    destruct (step_fixed fl h ev) as (_ & _ & Ecl & Eup).
    split; intros x Hx.
    - apply IHc in Hx as [Hx|Hx]; [auto|right; congruence].
    - apply IHu in Hx as [Hx|Hx]; [auto|right; congruence].
  Qed.

  Lemma hc_wires fl host port answers fs0 p0 r0 :
    let h1 := handle_connect_ fl host port answers (init_h fs0 p0 r0) in
    plain_wire (cl_wire (ps h1)) /\ up_wire (ps h1) = [].
  Proof.
    cbv zeta.
    destruct (on_request_complete_ fl host port answers (init_pst fs0)) as [s' r] eqn:H.
    destruct (hc_after_orc fl host port answers fs0 p0 r0 s' r H) as (_ & _ & _ & _ & Euw & Ecw & _).
    rewrite Euw, Ecw.
    destruct (connected_dec host port) as [(h & Htext & Hhost & Hport & Hconn)|Hnc].
    2:{ destruct (orc_not_connected fl host port answers fs0 Hnc) as (t & e & Heq & _).
        rewrite Heq in H. inv H. split; [constructor|reflexivity]. }
    rewrite (orc_connected fl host h port answers fs0 Htext Hhost Hport Hconn) in H.
    destruct (tls_intercept_enabled_ fl answers) eqn:Hen; [|inv H; split; [constructor|reflexivity]].
    rewrite intercept_unfold in H.
    destruct (wrap_server_ fl host (connected_pst fs0 h port)) as [s1 r1] eqn:Hws.
    apply wrap_server_spec in Hws as (_ & _ & _ & A4 & _ & A6 & _ & _). simpl in A4, A6.
    destruct r1 as [[]|e1]; try (inv H; rewrite A4, A6; split; [constructor|reflexivity]).
    destruct (wrap_client_ fl host s1) as [s2 r2] eqn:Hwc.
    eapply wrap_client_spec in Hwc as (_ & _ & B3 & _ & t & _ & _ & _ & (w & Hw & Hplain & _) & _); eauto.
    assert (plain_wire (cl_wire s2) /\ up_wire s2 = []) by (rewrite Hw, A4, B3, A6; auto).
    destruct r2 as [[]|e2]; inv H; assumption.
  Qed.

  (* Nothing is ever sent inside a TLS session of the proxy - to either side - unless the upstream
     handshake succeeded under the policy settings (and hence, by openssl_spec, unless the origin's
     certificate verified, when verification is on). *)
  Theorem tls_only_after_verified_handshake fl host port answers fs0 p0 r0 evs :
    let hf := run_ fl host port answers fs0 p0 r0 evs in
    (cl (ps hf) = ClTls \/ up (ps hf) = UpTls \/
     (exists d, In (true, d) (cl_wire (ps hf))) \/ (exists d, In (true, d) (up_wire (ps hf)))) ->
    exists h p, text_ host = Ok h /\ handshake (policy_call fl h) = HsOk p.
  Proof.
    cbv zeta. unfold run.
    set (h1 := handle_connect_ fl host port answers (init_h fs0 p0 r0)).
    destruct (fold_fixed fl evs h1) as (_ & _ & Ecl & Eup).
    destruct (fold_wire_tags fl evs h1) as (Tc & Tu).
    destruct (hc_wires fl host port answers fs0 p0 r0) as (Hpc & Hpu). fold h1 in Hpc, Hpu.
    assert (Hc : cl (ps h1) = ClTls -> exists h p, text_ host = Ok h /\ handshake (policy_call fl h) = HsOk p).
    { intros Hc. destruct (hc_client_tls fl host port answers fs0 p0 r0 Hc) as (h & p & _ & Ht & _ & _ & _ & _ & Hh & _). eauto. }
    assert (Hu : up (ps h1) = UpTls -> exists h p, text_ host = Ok h /\ handshake (policy_call fl h) = HsOk p).
    { apply hc_upstream_tls. }
    rewrite Ecl, Eup. intros [H|[H|[(d & H)|(d & H)]]]; auto.
    - apply Tc in H as [H|H].
      + unfold plain_wire in Hpc. rewrite Forall_forall in Hpc. apply Hpc in H. discriminate.
      + simpl in H. apply Hc. destruct (cl (ps h1)); simpl in H; congruence.
    - apply Tu in H as [H|H].
      + rewrite Hpu in H. contradiction.
      + simpl in H. apply Hu. destruct (up (ps h1)); simpl in H; congruence.
  Qed.

  Corollary tls_only_for_good_origin chain_ok name_ok fl host port answers fs0 p0 r0 evs :
    openssl_spec handshake chain_ok name_ok ->
    insecure_tls_interception fl = false ->
    let hf := run_ fl host port answers fs0 p0 r0 evs in
    (cl (ps hf) = ClTls \/ up (ps hf) = UpTls \/
     (exists d, In (true, d) (cl_wire (ps hf))) \/ (exists d, In (true, d) (up_wire (ps hf)))) ->
    exists h, text_ host = Ok h /\ chain_ok (ca_file fl) = true /\ name_ok (strip_brackets h) = true.
  Proof.
    intros (Hchain & Hname) Hsec hf Htls.
    destruct (tls_only_after_verified_handshake fl host port answers fs0 p0 r0 evs Htls) as (h & p & Htext & Hhs).
    exists h. split; [assumption|].
    unfold policy_call in Hhs. rewrite Hsec in Hhs. simpl in Hhs.
    split.
    - destruct (chain_ok (ca_file fl)) eqn:Hc; [reflexivity|].
      rewrite Hchain in Hhs; [discriminate|reflexivity|reflexivity|reflexivity|exact Hc].
    - destruct (name_ok (strip_brackets h)) eqn:Hn; [reflexivity|].
      erewrite Hname in Hhs; [discriminate|reflexivity|reflexivity|reflexivity|exact Hn].
  Qed.

  (* ================================================================ the generated certificate *)
  (* every openssl command and every client-side handshake names the CONNECT host: subjectAltName
     (IP: for literals, DNS: otherwise), cache file names, signing CA, leaf key *)
  Theorem cert_names_host fl host port answers fs0 p0 r0 evs :
    let hf := run_ fl host port answers fs0 p0 r0 evs in
    forall e, In e (tr (ps hf)) ->
      match e with
      | EOpenssl c => exists h, text_ host = Ok h /\ good_cmd fl h c
      | EClientWrap k cert =>
          exists h dir, text_ host = Ok h /\ ca_signing_key_file fl = Some k /\
                        ca_cert_dir fl = Some dir /\ cert = generated_cert_file_path dir h
      | _ => True
      end.
  Proof.
    cbv zeta. unfold run. destruct (fold_fixed fl evs (handle_connect_ fl host port answers (init_h fs0 p0 r0))) as (-> & _).
    destruct (hc_trace fl host port answers fs0 p0 r0) as (Ha & _).
    intros e Hin. rewrite Forall_forall in Ha. apply Ha in Hin.
    destruct e; simpl in *; auto.
    destruct Hin as (h & Htext & Hk & dir & Hdir & Hcert). eauto 8.
  Qed.

  (* warm cache: the certificate file exists -> no openssl command at all;
     and whenever the client side is wrapped, the certificate presented is the host's cache file, it
     exists, and it was either cached or written by a successful openssl command of this connection *)
  Theorem cert_cache fl host port answers fs0 p0 r0 evs :
    let hf := run_ fl host port answers fs0 p0 r0 evs in
    (forall h dir, text_ host = Ok h -> ca_cert_dir fl = Some dir ->
                   mem_path (generated_cert_file_path dir h) fs0 = true ->
                   Forall (fun e => is_openssl e = false) (tr (ps hf))) /\
    (cl (ps hf) = ClTls ->
     exists h dir k, text_ host = Ok h /\ ca_cert_dir fl = Some dir /\
       let cert := generated_cert_file_path dir h in
       In (EClientWrap k cert) (tr (ps hf)) /\ client_handshake k cert = None /\
       mem_path cert (fs (ps hf)) = true /\
       (mem_path cert fs0 = true \/
        exists c, In (EOpenssl c) (tr (ps hf)) /\ bytes_eqb cert (cmd_out c) = true /\ openssl_run c = RTrue)).
  Proof.
    cbv zeta. unfold run.
    set (h1 := handle_connect_ fl host port answers (init_h fs0 p0 r0)).
    destruct (fold_fixed fl evs h1) as (-> & -> & -> & _).
    split.
    - intros h dir Htext Hdir Hc.
      destruct (on_request_complete_ fl host port answers (init_pst fs0)) as [s' r] eqn:H.
      destruct (hc_after_orc fl host port answers fs0 p0 r0 s' r H) as (_ & _ & _ & _ & _ & _ & _ & _ & Etr & _).
      fold h1 in Etr.
      assert (Hs' : Forall (fun e => is_openssl e = false) (tr s')).
      { destruct (connected_dec host port) as [(h' & Htext' & Hhost & Hport & Hconn)|Hnc].
        2:{ destruct (orc_not_connected fl host port answers fs0 Hnc) as (t & e & Heq & _ & Ht).
            rewrite Heq in H. inv H. simpl. destruct Ht as [->|(h' & _ & ->)]; repeat constructor. }
        rewrite Htext in Htext'. injection Htext' as <-.
        rewrite (orc_connected fl host h port answers fs0 Htext Hhost Hport Hconn) in H.
        destruct (tls_intercept_enabled_ fl answers); [|inv H; repeat constructor].
        rewrite intercept_unfold in H.
        destruct (wrap_server_ fl host (connected_pst fs0 h port)) as [s1 r1] eqn:Hws.
        apply wrap_server_spec in Hws as (A1 & _ & _ & _ & _ & _ & Hr & _). simpl in A1.
        assert (Hs1 : Forall (fun e => is_openssl e = false) (tr s1)).
        { destruct r1 as [[]|e1].
          - destruct Hr as (? & ? & _ & _ & _ & _ & ->). repeat constructor.
          - destruct Hr as (? & ? & _ & _ & _ & _ & ->). repeat constructor.
          - destruct Hr as [(_ & _ & ->)|(? & _ & _ & _ & _ & ->)]; repeat constructor. }
        destruct r1 as [[]|e1]; try (inv H; assumption).
        destruct (wrap_client_ fl host s1) as [s2 r2] eqn:Hwc.
        eapply wrap_client_spec in Hwc as (_ & _ & _ & _ & t & Ht & _ & _ & _ & _ & _ & Hcache); eauto.
        assert (Hs2 : Forall (fun e => is_openssl e = false) (tr s2)).
        { rewrite Ht. apply Forall_app. split; [assumption|]. apply (Hcache dir Hdir). now rewrite A1. }
        destruct r2 as [[]|e2]; inv H; assumption. }
      destruct Etr as [(-> & _)|(_ & -> & _)]; [assumption|].
      apply Forall_app. split; [assumption|repeat constructor].
    - intros Htls.
      destruct (hc_client_tls fl host port answers fs0 p0 r0 Htls)
        as (h & p & t & Htext & _ & _ & _ & _ & _ & Htr & Hall & _ & _ & _ & _ & _ & _ & (k & cert & Hin & Hhs & Hmem) & Hgrow & _).
      fold h1 in Htr, Hmem, Hgrow.
      rewrite Forall_forall in Hall. pose proof (Hall _ Hin) as (Hk & dir & Hdir & ->).
      exists h, dir, k. split; [assumption|]. split; [assumption|]. cbv zeta.
      split; [rewrite Htr; apply in_or_app; now right|]. split; [assumption|]. split; [assumption|].
      destruct (Hgrow _ Hmem) as [Hm|(c & Hc & Heq & Hrun)]; [now left|right].
      exists c. split; [rewrite Htr; apply in_or_app; now right|auto].
  Qed.

  (* ================================================================ the intercepted exchange *)
  (* Once the client side is wrapped: every later chunk the client sends (decrypted) goes through
     on_client_data's request pipeline (C02) and what that produces is queued for the origin and leaves
     only inside the upstream TLS session; every origin chunk is queued for the client unmodified and
     leaves only inside the client TLS session; the plaintext the client ever received is (a prefix of)
     the CONNECT reply. *)
  Theorem intercepted_exchange fl host port answers fs0 p0 r0 evs outs :
    let h1 := handle_connect_ fl host port answers (init_h fs0 p0 r0) in
    let hf := run_ fl host port answers fs0 p0 r0 evs in
    cl (ps h1) = ClTls ->
    Forall (engaged_at fl) evs -> Forall benign evs ->
    pipeline_outs pipeline_step p0 (client_chunks evs) = Some outs ->
    established hf /\
    exists w0 wc,
      cl_wire (ps hf) = w0 ++ wc /\ plain_wire w0 /\ tls_wire wc /\
      tls_wire (up_wire (ps hf)) /\
      concat (map snd (up_wire (ps hf))) ++ concat (up_buf (ps hf)) = concat outs /\
      concat (map snd w0) ++ concat (map snd wc) ++ concat (cl_buf (ps hf)) = K200 ++ concat (upstream_chunks evs).
  Proof.
    cbv zeta. intros Htls Hall Hben Hpipe. unfold run.
    destruct (hc_client_tls fl host port answers fs0 p0 r0 Htls)
      as (h & p & t & _ & _ & _ & _ & _ & _ & _ & _ & Hm & Hup & Hub & Huw & Hplain & Hcat & _ & _ & _ & Hp0 & Hr0).
    set (h1 := handle_connect_ fl host port answers (init_h fs0 p0 r0)) in *.
    assert (Hest : established h1) by (repeat split; assumption).
    rewrite <- Hp0 in Hpipe.
    destruct (intercepted_fold fl evs h1 outs Hest Hall Hben Hpipe)
      as (Hest' & wc & wu & Hcw & Htc & Huw' & Htu & Hub' & Hcb').
    split; [assumption|]. exists (cl_wire (ps h1)), wc.
    rewrite Huw, app_nil_l in Huw'. rewrite Hub in Hub'. simpl in Hub'.
    repeat split; auto.
    - rewrite Huw'. assumption.
    - rewrite Huw'. assumption.
    - rewrite Hcb', app_assoc, Hcat. reflexivity.
  Qed.

  (* ================================================================ the two failure branches of the relay callbacks *)
  (* read_from_descriptors under interception (fix ba95ac6): whatever the bookkeeping response parser does
     with an origin chunk - digest it or raise - the chunk is queued for the client unmodified, behind what is
     already queued, and mode, escaped exception, both wires and the upstream buffer are untouched.  Holds for
     EVERY [response_step] (it is a Section variable), in Running and in MustFlush mode. *)
  Theorem response_chunk_relayed_whatever_the_parser fl h a raw :
    mode h = Running \/ mode h = MustFlush -> up_fd_valid (up (ps h)) = true ->
    let h' := step_ fl h (UpstreamData a raw) in
    cl_buf (ps h') = cl_buf (ps h) ++ [raw] /\ mode h' = mode h /\ escaped h' = escaped h /\
    cl_wire (ps h') = cl_wire (ps h) /\ up_buf (ps h') = up_buf (ps h) /\ up_wire (ps h') = up_wire (ps h) /\
    pipe h' = pipe h.
  Proof.
    intros Hm Hv. cbv zeta. unfold step. destruct Hm as [Hm|Hm]; rewrite Hm, Hv; unfold read_from_descriptors;
      destruct (tls_intercept_enabled_ fl a); simpl; rewrite ?Hm; repeat split; reflexivity.
  Qed.

  (* on_client_data under interception, the request parser raises HttpProtocolException on a decrypted chunk
     (after queueing [outs] for the origin): nothing escapes handle_events, nothing pending for the client is
     lost - with output pending the handler only stops reading the client (must_flush_before_shutdown) and
     the next complete flush delivers every pending chunk, inside the client's TLS session when there is one,
     and only then closes; with nothing pending it closes at once. *)
  Theorem protocol_exception_delivers_pending fl h a raw outs :
    mode h = Running -> up (ps h) <> UpNone -> tls_intercept_enabled_ fl a = true ->
    pipeline_step (pipe h) raw = inr (PipeProtocol outs) ->
    let h1 := step_ fl h (ClientData a raw) in
    escaped h1 = escaped h /\ cl_buf (ps h1) = cl_buf (ps h) /\ cl_wire (ps h1) = cl_wire (ps h) /\
    up_buf (ps h1) = up_buf (ps h) ++ outs /\ up_wire (ps h1) = up_wire (ps h) /\
    (cl_buf (ps h) = [] -> mode h1 = Closed) /\
    (cl_buf (ps h) <> [] ->
       mode h1 = MustFlush /\
       step_ fl h1 (ClientData a raw) = h1 /\
       (cl (ps h) <> ClDead ->
        let h2 := step_ fl h1 FlushClient in
        mode h2 = Closed /\ escaped h2 = escaped h /\ cl_buf (ps h2) = [] /\
        cl_wire (ps h2) = cl_wire (ps h) ++ map (fun d => (is_tls_cl (cl (ps h)), d)) (cl_buf (ps h)))).
  Proof.
    intros Hm Hup Hen Hps.
    assert (E1 : step_ fl h (ClientData a raw) =
                 with_mode (with_ps h (fst (set_up_buf (up_buf (ps h) ++ outs) (ps h))))
                           (after_handle_data_true (fst (set_up_buf (up_buf (ps h) ++ outs) (ps h))))).
    { unfold step. rewrite Hm. unfold on_client_data. rewrite Hen, Hps. destruct (up (ps h)); [contradiction|reflexivity|reflexivity|reflexivity]. }
    cbv zeta. rewrite E1. clear E1. unfold after_handle_data_true, set_up_buf, with_mode, with_ps. simpl.
    destruct (cl_buf (ps h)) as [|b0 rest] eqn:Ecb.
    - do 5 (split; [reflexivity|]). split; [reflexivity|]. intros X. exfalso. apply X. reflexivity.
    - do 5 (split; [reflexivity|]). split; [intros X; discriminate X|]. intros _.
      split; [reflexivity|]. split; [reflexivity|].
      intros Hcl. unfold step. simpl.
      destruct (cl (ps h)) eqn:Ecl; [| |contradiction]; simpl; repeat split; reflexivity.
  Qed.
End Facts.
