(* C11 — the finite outcome table evaluated by the kernel, and the fact that the scripted openssl of the
   correspondence check meets openssl_spec (non-vacuity of that premise). *)
From PM Require Import Lib.Bytes Lib.BytesFacts Lib.PyStr Tls.Intercept Tls.InterceptFacts Tls.InterceptCases.

Lemma sim_handshake_meets_spec sc :
  sc_transport sc = None ->
  openssl_spec (sim_handshake sc)
               (fun ca => match sc_chain sc with ChainTrustedBy t => obytes_eqb ca (Some t) | _ => false end)
               (fun hn => mem_bytes hn (sc_names sc)).
Proof.
  intros Ht. unfold openssl_spec, sim_handshake. rewrite Ht. split.
  - intros c Hvm Hex _ Hch. rewrite Hvm, Hex. simpl.
    destruct (sc_chain sc); simpl in *; try reflexivity. rewrite Hch. reflexivity.
  - intros c hn Hvm Hck Hsn Hn. rewrite Hvm, Hck, Hsn, Hn. simpl.
    match goal with |- (if negb ?b then _ else _) = _ => destruct b end; reflexivity.
Qed.


Definition count {A} (l : list A) : N := fold_left (fun n _ => n + 1) l 0.
Lemma sweep_size : map (fun hp => count (sweep_table hp)) sweep_hosts = [26064; 26064; 26064].
Proof. vm_compute. reflexivity. Qed.

Lemma sweep_ok : forallb (fun host => forallb (sweep_check host) (sweep_table host)) sweep_hosts = true.
Proof. vm_compute. reflexivity. Qed.
