(* Model coherence, part 1: the HTTP message builders of proxy/common/utils.py
   (_header_key, build_http_header, build_http_pkt, build_http_request, build_http_response),
   the canned packets / okResponse of proxy/http/responses.py, ChunkParser.to_chunks and
   HttpParser.build are modelled
     - in Http/Builders.v + Http/Chunk.v      (reference; C15, used by C02/C04/C11),
     - again in Net/Static.v                  (C13),
     - again in Net/Responses.v               (C06),
     - again in Net/Reverse.v                 (C12),
     - again in Net/Auth.v                    (C08/C09).
   This file proves that the copies coincide with the reference (for all arguments; argument-shape
   mappings are explicit in the statements) and records, as machine-checked `_differ` lemmas, the
   inputs on which a copy genuinely disagrees with the reference (and with the Python).

   Net/Forward.v and Net/Conversation.v have no copy: they import Http/Builders.v. *)
From PM Require Import Lib.Bytes Lib.BytesFacts Lib.PyStr.
From PM Require Http.Url Http.Chunk Http.Parser Http.Builders Net.Static Net.Responses Net.ResponsesFacts Net.Reverse Net.Auth.
From Coq Require Import ZArith.

Module B := PM.Http.Builders.
Module S := PM.Net.Static.
Module R := PM.Net.Responses.
Module V := PM.Net.Reverse.
Module P := PM.Http.Parser.
Module A := PM.Net.Auth.

(* ================================================================== shared helpers *)

(* no key of [h] is a DIFFERENT spelling of header [name] *)
Definition canon_keysb (name : bytes) (h : dict bytes) : bool :=
  forallb (fun kv => negb (bytes_eqb (lower (fst kv)) (lower name)) || bytes_eqb (fst kv) name) h.

Lemma header_key_canon name h : canon_keysb name h = true -> B.header_key h name = name.
Proof.
  induction h as [|[k v] h IH]; intros Hc; [reflexivity|].
  cbn [canon_keysb forallb fst] in Hc. apply andb_true_iff in Hc. destruct Hc as [Hk Ht].
  cbn [B.header_key]. destruct (bytes_eqb (lower k) (lower name)) eqn:E.
  - cbn [negb orb] in Hk. apply bytes_eqb_eq in Hk. exact Hk.
  - apply IH. exact Ht.
Qed.

Lemma canon_keysb_dict_set name k v h :
  canon_keysb name h = true ->
  negb (bytes_eqb (lower k) (lower name)) || bytes_eqb k name = true ->
  canon_keysb name (dict_set k v h) = true.
Proof.
  intros Hh Hk. induction h as [|[k' v'] h IH].
  - cbn [dict_set canon_keysb forallb fst]. rewrite Hk. reflexivity.
  - cbn [canon_keysb forallb fst] in Hh. apply andb_true_iff in Hh. destruct Hh as [H1 H2].
    cbn [dict_set]. destruct (bytes_eqb k k').
    + cbn [canon_keysb forallb fst]. rewrite Hk. exact H2.
    + cbn [canon_keysb forallb fst]. rewrite H1. apply IH. exact H2.
Qed.

Lemma dec_of_Z_of_N n : dec_of_Z (Z.of_N n) = dec_of_N n.
Proof. destruct n; reflexivity. Qed.

(* ================================================================== Net/Static.v (C13) *)

Lemma static_build_http_header_eq k v : S.build_http_header k v = B.build_http_header k v.
Proof. reflexivity. Qed.

Lemma static_header_lines_eq h : S.header_lines h = B.header_lines h.
Proof.
  induction h as [|[k v] h IH]; [reflexivity|].
  cbn [S.header_lines B.header_lines]. rewrite IH. reflexivity.
Qed.

(* build_http_pkt: the C13 copy writes headers[b'Connection'], the reference (and the Python since
   13aa563) writes headers[_header_key(headers, b'Connection')].  Equal whenever no other spelling
   of Connection is present, or conn_close is off. *)
Theorem static_build_http_pkt_eq line h body cc :
  cc = false \/ canon_keysb B.H_CONNECTION h = true ->
  S.build_http_pkt line h body cc = B.build_http_pkt line (Some h) body cc.
Proof.
  intros Hc. unfold S.build_http_pkt, B.build_http_pkt, B.pkt_headers.
  rewrite !static_header_lines_eq.
  destruct cc.
  - destruct Hc as [Hc|Hc]; [discriminate|].
    rewrite (header_key_canon _ _ Hc). reflexivity.
  - reflexivity.
Qed.

(* ... and they do differ otherwise: GENUINE DISAGREEMENT (the C13 copy predates fix 13aa563) *)
Definition differ_headers : dict bytes := [(bs "connection", bs "keep-alive")].
Lemma static_build_http_pkt_differ :
  S.build_http_pkt [bs "HTTP/1.1"; bs "200"; bs "OK"] differ_headers None true <>
  B.build_http_pkt [bs "HTTP/1.1"; bs "200"; bs "OK"] (Some differ_headers) None true.
Proof. vm_compute. discriminate. Qed.

(* the reference on that input: one Connection line, the client's spelling kept (as the Python) *)
Example static_build_http_pkt_differ_values :
  B.build_http_pkt [bs "HTTP/1.1"; bs "200"; bs "OK"] (Some differ_headers) None true
    = bs "HTTP/1.1 200 OK" ++ CRLF ++ bs "connection: close" ++ CRLF ++ CRLF /\
  S.build_http_pkt [bs "HTTP/1.1"; bs "200"; bs "OK"] differ_headers None true
    = bs "HTTP/1.1 200 OK" ++ CRLF ++ bs "connection: keep-alive" ++ CRLF ++ bs "Connection: close" ++ CRLF ++ CRLF.
Proof. split; vm_compute; reflexivity. Qed.

Lemma content_length_not_connection :
  negb (bytes_eqb (lower B.H_CONTENT_LENGTH) (lower B.H_CONNECTION)) || bytes_eqb B.H_CONTENT_LENGTH B.H_CONNECTION = true.
Proof. vm_compute. reflexivity. Qed.

(* build_http_response: status : N -> int, protocol_version fixed to HTTP/1.1 in the C13 copy *)
Theorem static_build_http_response_eq status reason h body cc no_cl :
  canon_keysb B.H_CONTENT_LENGTH h = true -> canon_keysb B.H_CONNECTION h = true ->
  S.build_http_response status reason h body cc no_cl =
  B.build_http_response (Z.of_N status) S.HTTP_1_1 reason (Some h) body cc no_cl.
Proof.
  intros Hcl Hcn.
  unfold S.build_http_response, B.build_http_response, B.response_headers, B.bytes_of_Z, B.bytes_of_N.
  cbv zeta. rewrite dec_of_Z_of_N.
  change (existsb (fun kv : bytes * bytes => bytes_eqb (lower (fst kv)) (bs "transfer-encoding")) h)
    with (B.has_key_ci P.TRANSFER_ENCODING h).
  rewrite (header_key_canon _ _ Hcl).
  apply static_build_http_pkt_eq. right.
  destruct (negb (B.has_key_ci P.TRANSFER_ENCODING h) && negb no_cl).
  - apply canon_keysb_dict_set; [exact Hcn | exact content_length_not_connection].
  - exact Hcn.
Qed.

Lemma static_build_http_response_differ :
  S.build_http_response 200 (Some (bs "OK")) [(bs "content-length", bs "5")] (Some (bs "hello")) false false <>
  B.build_http_response 200 S.HTTP_1_1 (Some (bs "OK")) (Some [(bs "content-length", bs "5")]) (Some (bs "hello")) false false.
Proof. vm_compute. discriminate. Qed.

(* every header dict the C13 model itself ever passes is canonical, so INSIDE the C13 model the copy
   and the reference coincide unconditionally: *)
Lemma static_headers_canon guess_type path name :
  canon_keysb name [(bs "Content-Type", bs "x"); (bs "Cache-Control", bs "x"); (bs "Content-Encoding", bs "x"); (bs "Server", bs "x")] = true ->
  canon_keysb name (S.static_headers guess_type path) = true.
Proof.
  unfold S.static_headers, canon_keysb. cbn [forallb fst]. intros H.
  apply andb_true_iff in H. destruct H as [H1 H].
  apply andb_true_iff in H. destruct H as [H2 _].
  rewrite H1, H2. reflexivity.
Qed.

(* ================================================================== Net/Responses.v (C06) *)

Lemma responses_header_key_eq h name : R.header_key h name = B.header_key h name.
Proof.
  induction h as [|[k v] h IH]; [reflexivity|].
  cbn [R.header_key B.header_key]. rewrite IH. reflexivity.
Qed.

Lemma responses_fold_header_lines h : forall pkt,
  fold_left (fun pkt kv => pkt ++ R.build_http_header (fst kv) (snd kv) ++ CRLF) h pkt = pkt ++ B.header_lines h.
Proof.
  induction h as [|[k v] h IH]; intros pkt.
  - cbn [fold_left B.header_lines]. rewrite app_nil_r. reflexivity.
  - cbn [fold_left B.header_lines fst snd]. rewrite IH. rewrite <- !app_assoc. reflexivity.
Qed.

Theorem responses_build_http_pkt_eq line h body cc :
  R.build_http_pkt line h body cc = B.build_http_pkt line h body cc.
Proof.
  unfold R.build_http_pkt, B.build_http_pkt, B.pkt_headers. cbv zeta.
  rewrite responses_fold_header_lines.
  change (R.hdrs_or_empty h) with (match h with Some d => d | None => [] end).
  rewrite responses_header_key_eq.
  change (R.truthy body) with (B.truthy body). change (R.bytes_or_empty body) with (B.or_empty body).
  destruct (B.truthy body); rewrite <- ?app_assoc; [reflexivity|].
  rewrite app_nil_r. reflexivity.
Qed.

(* re-export of agent-C06's link (ResponsesFacts.build_http_response_is_Builders = C06_builder_model_is_shared) *)
Theorem responses_build_http_response_eq a :
  R.build_http_response a =
  B.build_http_response (R.a_status a) (R.a_version a) (R.a_reason a) (R.a_headers a)
    (R.a_body a) (R.a_conn_close a) (R.a_no_cl a).
Proof. exact (ResponsesFacts.build_http_response_is_Builders a). Qed.

(* okResponse: C13's copy (content : bytes, headers : dict, no_cl absent) against C06's *)
Section OkResponse.
  Variable min_compression_length : Z.
  Variable gz : bytes -> bytes.

  Theorem static_okResponse_eq content headers compress conn_close :
    canon_keysb B.H_CONTENT_LENGTH headers = true -> canon_keysb B.H_CONNECTION headers = true ->
    S.okResponse min_compression_length gz content headers compress conn_close =
    R.okResponse gz (Some content) (Some headers) compress min_compression_length conn_close false.
  Proof.
    intros Hcl Hcn.
    unfold S.okResponse, S.okResponse_args, R.okResponse, R.okResponse_args. cbv zeta.
    rewrite responses_build_http_response_eq.
    assert (Ecmp : compress && negb (S.is_nil content) && (min_compression_length <? Z.of_N (len content))%Z =
                   compress && R.truthy (Some content) &&
                   (min_compression_length <? Z.of_nat (length (R.bytes_or_empty (Some content))))%Z).
    { unfold len. rewrite nat_N_Z. destruct content; reflexivity. }
    rewrite <- Ecmp. clear Ecmp.
    set (dc := compress && negb (S.is_nil content) && (min_compression_length <? Z.of_N (len content))%Z).
    assert (Hdc : dc = true -> negb (S.is_nil content) = true).
    { unfold dc. intros H. apply andb_true_iff in H. destruct H as [H _].
      apply andb_true_iff in H. destruct H as [_ H]. exact H. }
    destruct dc.
    - rewrite (Hdc eq_refl). cbn [andb R.mk_args R.a_status R.a_version R.a_reason R.a_headers R.a_body
                                   R.a_conn_close R.a_no_cl R.hdrs_or_empty R.bytes_or_empty].
      rewrite static_build_http_response_eq.
      + reflexivity.
      + apply canon_keysb_dict_set; [exact Hcl|vm_compute; reflexivity].
      + apply canon_keysb_dict_set; [exact Hcn|vm_compute; reflexivity].
    - cbn [andb R.mk_args R.a_status R.a_version R.a_reason R.a_headers R.a_body
           R.a_conn_close R.a_no_cl].
      rewrite static_build_http_response_eq; [reflexivity|exact Hcl|exact Hcn].
  Qed.

  (* the instance the static file server uses: unconditional, for every mimetypes behaviour *)
  Corollary static_served_file_pkt_eq guess_type path content :
    S.okResponse min_compression_length gz content (S.static_headers guess_type path) true true =
    R.okResponse gz (Some content) (Some (S.static_headers guess_type path)) true min_compression_length true false.
  Proof.
    apply static_okResponse_eq; apply static_headers_canon; vm_compute; reflexivity.
  Qed.
End OkResponse.

(* ================================================================== Net/Reverse.v (C12) *)

Lemma reverse_build_http_header_eq k v : V.build_http_header k v = B.build_http_header k v.
Proof. reflexivity. Qed.

Lemma reverse_header_key_eq h name : V.header_key h name = B.header_key h name.
Proof.
  induction h as [|[k v] h IH]; [reflexivity|].
  unfold V.header_key in *. cbn [find fst B.header_key].
  destruct (bytes_eqb (lower k) (lower name)); [reflexivity|exact IH].
Qed.

Lemma reverse_render_headers_eq h : V.render_headers h = B.header_lines h.
Proof.
  induction h as [|[k v] h IH]; [reflexivity|].
  unfold V.render_headers in *. cbn [flat_map fst snd B.header_lines].
  rewrite IH, <- app_assoc. reflexivity.
Qed.

Lemma reverse_opt_bytes body : V.opt_bytes body = if B.truthy body then B.or_empty body else [].
Proof. destruct body as [[|x t]|]; reflexivity. Qed.

Lemma reverse_opt_truthy body : V.opt_truthy body = B.truthy body.
Proof. destruct body as [[|x t]|]; reflexivity. Qed.

Theorem reverse_build_http_pkt_eq line h body cc :
  V.build_http_pkt line h body cc = B.build_http_pkt line (Some h) body cc.
Proof.
  unfold V.build_http_pkt, B.build_http_pkt, B.pkt_headers. cbv zeta.
  rewrite reverse_render_headers_eq, reverse_header_key_eq, reverse_opt_bytes. reflexivity.
Qed.

(* build_http_request as HttpParser.build calls it: content_type=None, conn_close=False, no_ua=True;
   the User-Agent value is then irrelevant *)
Theorem reverse_build_http_request_eq ua method url version h body :
  V.build_http_request method url version h body =
  B.build_http_request ua method url version None (Some h) body false true.
Proof.
  unfold V.build_http_request, B.build_http_request, V.fix_content_length, B.request_headers. cbv zeta.
  rewrite reverse_build_http_pkt_eq, reverse_opt_truthy, reverse_header_key_eq.
  rewrite andb_false_r.
  replace (V.opt_bytes body) with (B.or_empty body) by (destruct body; reflexivity).
  reflexivity.
Qed.

(* build_http_response: status : N -> int, no_cl fixed to False in the C12 copy *)
Theorem reverse_build_http_response_eq status version reason h body cc :
  V.build_http_response status version reason h body cc =
  B.build_http_response (Z.of_N status) version reason (Some h) body cc false.
Proof.
  unfold V.build_http_response, B.build_http_response, B.response_headers, B.bytes_of_Z, B.bytes_of_N. cbv zeta.
  rewrite reverse_build_http_pkt_eq, !reverse_opt_truthy, reverse_header_key_eq, dec_of_Z_of_N.
  change (V.has_key_ci (bs "transfer-encoding") h) with (B.has_key_ci P.TRANSFER_ENCODING h).
  replace (V.opt_bytes body) with (B.or_empty body) by (destruct body; reflexivity).
  replace (V.opt_bytes reason) with (B.or_empty reason) by (destruct reason; reflexivity).
  rewrite andb_true_r.
  destruct (B.has_key_ci P.TRANSFER_ENCODING h); reflexivity.
Qed.

(* ---- ChunkParser.to_chunks ---- *)
Lemma join_cons_snoc2 sep p l (x y : bytes) :
  join sep (p :: l ++ [x; y]) = p ++ sep ++ join sep (l ++ [x; y]).
Proof. destruct l; reflexivity. Qed.

Lemma reverse_to_chunks_aux_eq cs x y : forall fuel raw,
  join CRLF (V.to_chunks_aux fuel cs raw ++ [x; y]) =
  Chunk.to_chunks_aux fuel (N.to_nat cs) raw ++ x ++ CRLF ++ y.
Proof.
  induction fuel as [|f IH]; intros raw; [reflexivity|].
  destruct raw as [|b raw']; [reflexivity|].
  cbn [V.to_chunks_aux Chunk.to_chunks_aux]. cbv zeta.
  rewrite take_firstn, drop_skipn.
  rewrite <- !app_comm_cons.
  change (join CRLF (?p :: ?q :: ?t)) with (p ++ CRLF ++ join CRLF (q :: t)).
  rewrite join_cons_snoc2, IH.
  rewrite <- !app_assoc. reflexivity.
Qed.

(* the two models of to_chunks agree for every positive chunk size (argument order differs) *)
Theorem reverse_to_chunks_eq cs raw : cs <> 0 -> Chunk.to_chunks raw cs = Ok (V.to_chunks cs raw).
Proof.
  intros Hcs. unfold Chunk.to_chunks, V.to_chunks.
  destruct (N.eqb_spec cs 0) as [E|_]; [contradiction|].
  rewrite reverse_to_chunks_aux_eq. rewrite <- !app_assoc. reflexivity.
Qed.

(* chunk_size = 0: Python's range(0, n, 0) raises ValueError (reference); the C12 copy returns bytes.
   Harmless for C12 (chunk_size is DEFAULT_BUFFER_SIZE = 131072), recorded as a model difference. *)
Lemma reverse_to_chunks_differ_zero : Chunk.to_chunks (bs "a") 0 <> Ok (V.to_chunks 0 (bs "a")).
Proof. vm_compute. discriminate. Qed.

(* ---- HttpParser.build(disable_headers, host=...) with for_proxy=False ---- *)
(* abstraction: what Net/Reverse.v's request record keeps of an HttpParser object *)
Definition request_of_parser (p : P.parser) : V.request :=
  V.mkRequest (B.or_empty (P.method p)) (P.path p) (B.or_empty (P.version p))
              (match P.headers p with Some h => h | None => [] end) (P.body p) (P.is_chunked_encoded p).

(* every C12 request is the image of a request-type parser: theorems over all V.request cover all parsers *)
Lemma request_of_parser_surjective (r : V.request) :
  exists p, P.is_request (P.ty p) = true /\ request_of_parser p = r.
Proof.
  exists {| P.ty := P.REQUEST_PARSER; P.state := P.COMPLETE; P.host := None; P.port := None;
            P.path := V.r_path r; P.method := Some (V.r_method r); P.code := None; P.reason := None;
            P.version := Some (V.r_version r); P.total_size := 0; P.buffer := None;
            P.headers := Some (V.r_headers r); P.body := V.r_body r; P.chunk := None; P.purl := None;
            P.is_chunked_encoded := V.r_chunked r; P.content_expected := false; P.is_https_tunnel := false |}.
  split; [reflexivity|]. destruct r; reflexivity.
Qed.

Lemma existsb_mem_bytes x l : existsb (bytes_eqb x) l = Url.mem_bytes x l.
Proof. induction l as [|y l IH]; [reflexivity|]. cbn [existsb Url.mem_bytes]. rewrite IH. reflexivity. Qed.

Lemma reverse_build_headers_acc disable host h : forall acc,
  fold_left (fun acc e =>
               if existsb (bytes_eqb (lower (fst e))) disable then acc
               else dict_set (fst (snd e))
                      (match host with
                       | None => snd (snd e)
                       | Some hv => if bytes_eqb (lower (fst (snd e))) (bs "host") then hv else snd (snd e)
                       end) acc) h acc
  = B.rebuilt_request_headers disable host h acc.
Proof.
  induction h as [|[k [orig v]] h IH]; intros acc; [reflexivity|].
  cbn [fold_left B.rebuilt_request_headers fst snd]. rewrite existsb_mem_bytes.
  change (bs "host") with B.L_HOST.
  destruct (Url.mem_bytes (lower k) disable); [apply IH|].
  destruct host as [hv|]; apply IH.
Qed.

Lemma reverse_build_headers_eq disable host (h : option P.hdict) :
  V.build_headers disable host (match h with Some d => d | None => [] end) =
  match h with Some ((_ :: _) as d) => B.rebuilt_request_headers disable host d [] | _ => [] end.
Proof.
  unfold V.build_headers. destruct h as [[|e d]|]; [reflexivity| |reflexivity].
  apply reverse_build_headers_acc.
Qed.

Theorem reverse_build_eq ua cs disable host p :
  cs <> 0 -> P.is_request (P.ty p) = true ->
  V.build cs disable (request_of_parser p) host =
  (if negb (B.truthy (P.method p) && B.truthy (P.version p)) then Err AssertionError else
   do body <- match P.body p with
              | Some b => if P.is_chunked_encoded p then do w <- Chunk.to_chunks b cs; Ok (Some w) else Ok (Some b)
              | None => Ok None end;
   Ok (B.build_http_request ua (B.or_empty (P.method p))
         (if B.truthy (P.path p) then B.or_empty (P.path p) else [Url.SLASH]) (B.or_empty (P.version p)) None
         (Some match P.headers p with
               | Some ((_ :: _) as h) => B.rebuilt_request_headers disable host h []
               | _ => [] end) body false true)).
Proof.
  intros Hcs Hty. unfold V.build, request_of_parser.
  cbn [V.r_method V.r_path V.r_version V.r_headers V.r_body V.r_chunked].
  replace (V.truthy (B.or_empty (P.method p))) with (B.truthy (P.method p))
    by (destruct (P.method p) as [[|]|]; reflexivity).
  replace (V.truthy (B.or_empty (P.version p))) with (B.truthy (P.version p))
    by (destruct (P.version p) as [[|]|]; reflexivity).
  destruct (B.truthy (P.method p) && B.truthy (P.version p)); [|reflexivity].
  cbn [negb]. rewrite reverse_build_headers_eq.
  rewrite (reverse_build_http_request_eq ua).
  replace (V.or_slash (P.path p)) with (if B.truthy (P.path p) then B.or_empty (P.path p) else [Url.SLASH])
    by (destruct (P.path p) as [[|]|]; reflexivity).
  unfold V.get_body_or_chunks. cbn [V.r_body V.r_chunked].
  destruct (P.body p) as [b|]; [|reflexivity].
  destruct (P.is_chunked_encoded p); [|reflexivity].
  rewrite (reverse_to_chunks_eq cs b Hcs). reflexivity.
Qed.

(* the main statement: C12's rebuilt request IS HttpParser.build of the shared model *)
Theorem reverse_build_is_Builders_build ua disable host p :
  P.is_request (P.ty p) = true ->
  V.build B.DEFAULT_BUFFER_SIZE disable (request_of_parser p) host = B.build ua p disable false host.
Proof.
  intros Hty. rewrite (reverse_build_eq ua); [|discriminate|exact Hty].
  unfold B.build, B.get_body_or_chunks. rewrite Hty, andb_true_r. reflexivity.
Qed.

(* a response-type parser: the Python asserts, the C12 copy does not look at the type (its request
   record has none): outside the image restricted to request parsers, not a disagreement on C12's domain *)

(* ================================================================== the canned 404 *)
(* the canned 404 of the three models is one packet *)
Theorem not_found_pkt_shared agent :
  S.NOT_FOUND_RESPONSE_PKT agent = R.NOT_FOUND_RESPONSE_PKT agent /\
  V.NOT_FOUND_RESPONSE_PKT agent = R.NOT_FOUND_RESPONSE_PKT agent /\
  R.NOT_FOUND_RESPONSE_PKT agent =
    B.build_http_response 404 (bs "HTTP/1.1") (Some (bs "NOT FOUND")) (Some [(bs "Server", agent)]) None true false.
Proof.
  assert (E3 : R.NOT_FOUND_RESPONSE_PKT agent =
    B.build_http_response 404 (bs "HTTP/1.1") (Some (bs "NOT FOUND")) (Some [(bs "Server", agent)]) None true false).
  { unfold R.NOT_FOUND_RESPONSE_PKT. rewrite responses_build_http_response_eq. reflexivity. }
  split; [|split; [|exact E3]].
  - rewrite E3. unfold S.NOT_FOUND_RESPONSE_PKT.
    rewrite static_build_http_response_eq; [reflexivity| |]; vm_compute; reflexivity.
  - rewrite E3. unfold V.NOT_FOUND_RESPONSE_PKT. rewrite reverse_build_http_response_eq. reflexivity.
Qed.

(* ================================================================== Net/Auth.v (C08/C09) *)

Lemma auth_header_key_eq h name : A.header_key h name = B.header_key h name.
Proof.
  induction h as [|[k v] h IH]; [reflexivity|].
  cbn [A.header_key B.header_key]. rewrite IH. reflexivity.
Qed.

Lemma auth_header_lines_eq (h : dict bytes) :
  concat (map (fun kv => A.build_http_header (fst kv) (snd kv) ++ CRLF) h) = B.header_lines h.
Proof.
  induction h as [|[k v] h IH]; [reflexivity|].
  cbn [map concat fst snd B.header_lines]. rewrite IH, <- app_assoc. reflexivity.
Qed.

Theorem auth_build_http_pkt_eq line h body cc :
  A.build_http_pkt line h body cc = B.build_http_pkt line (Some h) body cc.
Proof.
  unfold A.build_http_pkt, B.build_http_pkt, B.pkt_headers. cbv zeta.
  rewrite auth_header_lines_eq, auth_header_key_eq.
  replace (A.body_or_empty body) with (if B.truthy body then B.or_empty body else [])
    by (destruct body as [[|]|]; reflexivity).
  reflexivity.
Qed.

Theorem auth_build_http_response_eq status reason h body cc no_cl :
  A.build_http_response status reason h body cc no_cl =
  B.build_http_response (Z.of_N status) A.HTTP_1_1 reason (Some h) body cc no_cl.
Proof.
  unfold A.build_http_response, B.build_http_response, B.response_headers, B.bytes_of_Z, B.bytes_of_N. cbv zeta.
  rewrite auth_build_http_pkt_eq, auth_header_key_eq, dec_of_Z_of_N.
  change (A.has_transfer_encoding h) with (B.has_key_ci P.TRANSFER_ENCODING h).
  replace (match A.nonempty reason with Some r => [r] | None => [] end)
    with (if B.truthy reason then [B.or_empty reason] else []) by (destruct reason as [[|]|]; reflexivity).
  replace (match A.nonempty body with Some b => dec_of_N (len b) | None => bs "0" end)
    with (if B.truthy body then dec_of_N (len (B.or_empty body)) else [48]) by (destruct body as [[|]|]; reflexivity).
  reflexivity.
Qed.

Theorem auth_build_http_request_eq ua method url version h body :
  A.build_http_request method url version h body =
  B.build_http_request ua method url version None (Some h) body false true.
Proof.
  unfold A.build_http_request, B.build_http_request, B.request_headers, B.bytes_of_N. cbv zeta.
  rewrite auth_build_http_pkt_eq, auth_header_key_eq, andb_false_r.
  change (A.has_transfer_encoding h) with (B.has_key_ci P.TRANSFER_ENCODING h).
  destruct body as [[|x t]|]; cbn [A.nonempty B.truthy B.or_empty andb]; try reflexivity.
  destruct (B.has_key_ci P.TRANSFER_ENCODING h); reflexivity.
Qed.

Lemma auth_build_headers_acc disable (h : A.headers) : forall acc,
  fold_left (fun d e => if A.mem_bytes (lower (fst e)) disable then d else dict_set (fst (snd e)) (snd (snd e)) d) h acc
  = B.rebuilt_request_headers disable None h acc.
Proof.
  induction h as [|[k [orig v]] h IH]; intros acc; [reflexivity|].
  cbn [fold_left B.rebuilt_request_headers fst snd]. change (A.mem_bytes (lower k) disable) with (existsb (bytes_eqb (lower k)) disable). rewrite existsb_mem_bytes.
  destruct (Url.mem_bytes (lower k) disable); apply IH.
Qed.

Theorem auth_build_headers_eq disable h : A.build_headers disable h = B.rebuilt_request_headers disable None h [].
Proof. apply auth_build_headers_acc. Qed.

(* the three canned packets of Net/Auth.v are those of Net/Responses.v *)
Theorem auth_canned_packets_shared agent :
  A.PROXY_AUTH_FAILED_RESPONSE_PKT agent = R.PROXY_AUTH_FAILED_RESPONSE_PKT agent /\
  A.BAD_GATEWAY_RESPONSE_PKT agent = R.BAD_GATEWAY_RESPONSE_PKT agent /\
  A.PROXY_TUNNEL_ESTABLISHED_RESPONSE_PKT = R.PROXY_TUNNEL_ESTABLISHED_RESPONSE_PKT.
Proof.
  unfold A.PROXY_AUTH_FAILED_RESPONSE_PKT, A.BAD_GATEWAY_RESPONSE_PKT, A.PROXY_TUNNEL_ESTABLISHED_RESPONSE_PKT,
    R.PROXY_AUTH_FAILED_RESPONSE_PKT, R.BAD_GATEWAY_RESPONSE_PKT, R.PROXY_TUNNEL_ESTABLISHED_RESPONSE_PKT.
  rewrite !auth_build_http_response_eq, !responses_build_http_response_eq.
  repeat split; reflexivity.
Qed.

(* ================================================================== Tls/Intercept.v (C11) *)
From PM Require Tls.Intercept Http.Upstream.
(* C11 writes the CONNECT acknowledgement as a literal and has its own strip_brackets *)
Theorem intercept_tunnel_pkt_shared :
  PM.Tls.Intercept.PROXY_TUNNEL_ESTABLISHED_RESPONSE_PKT = R.PROXY_TUNNEL_ESTABLISHED_RESPONSE_PKT.
Proof. vm_compute. reflexivity. Qed.
Theorem intercept_strip_brackets_shared h :
  PM.Tls.Intercept.strip_brackets h = PM.Http.Upstream.strip_brackets h.
Proof. reflexivity. Qed.
