(* Model coherence, part 3b: HttpProtocolHandler.handle_data / _parse_first_request are modelled
     - in Net/FirstRequest.v (C06) with an ABSTRACT plugin: on_request_complete / on_client_data are
       Section variables (arbitrary functions of the request and of the history of calls), the
       handler's own rejections are bytes built by Net/Responses.v;
     - in Net/Forward.v (C02) with the CONCRETE HttpProxyPlugin (+ AuthPlugin), client packets by name.
   This file instantiates the abstract hooks with the concrete plugin — the hook answers are computed
   by REPLAYING Forward's plugin on the request and the call history, which is exactly the dependence
   C06 allows — and proves that the two handle_data functions are then in lock-step simulation, for
   every configuration (with or without --basic-auth), connect outcome, state pair in the relation and
   input segment: same bytes queued for the client (incl. the 400 / 407 / 502 packets), same return
   value / escaping exception, same request parser state up to the header rewriting the plugin does.
   Consequently every C06 theorem (quantified over all hooks) holds of the Forward model. *)
From PM Require Import Lib.Bytes Lib.BytesFacts Lib.PyStr Http.Url Http.Chunk Http.Parser Http.Builders Http.Upstream.
From PM Require Net.Responses Net.FirstRequest Net.Forward Net.ForwardFacts Links.ParseErrors Links.Rewrite.
From Coq Require Import ZArith Lia.

Module Q := PM.Net.FirstRequest.
Module F := PM.Net.Forward.
Module FF := PM.Net.ForwardFacts.
Module R := PM.Net.Responses.
Module PE := PM.Links.ParseErrors.
Module LR := PM.Links.Rewrite.

Notation sbs := set_buffer_size.

(* ================================================================== Forward-side facts *)
Definition st_of := LR.st_of.
Definition plugin_state0 := LR.plugin_state0.

(* ---- the header surgery commutes with assignments to buffer / total_size ---- *)
Lemma del_header_sbs p k b s : del_header (sbs p b s) k = sbs (del_header p k) b s.
Proof.
  unfold del_header. cbn [headers set_buffer_size].
  destruct (headers p) as [[|e d]|]; try reflexivity.
  destruct (dict_has (lower k) (e :: d)); reflexivity.
Qed.
Lemma add_header_sbs p k v b s : add_header (sbs p b s) k v = sbs (add_header p k v) b s.
Proof. reflexivity. Qed.

Lemma del_headers_sbs keys : forall p b s, F.del_headers (sbs p b s) keys = sbs (F.del_headers p keys) b s.
Proof.
  unfold F.del_headers. induction keys as [|k keys IH]; intros p b s; [reflexivity|].
  cbn [fold_left]. rewrite del_header_sbs. apply IH.
Qed.
Lemma add_headers_sbs hs : forall p b s, F.add_headers (sbs p b s) hs = sbs (F.add_headers p hs) b s.
Proof.
  unfold F.add_headers. induction hs as [|kv hs IH]; intros p b s; [reflexivity|].
  cbn [fold_left]. rewrite add_header_sbs. apply IH.
Qed.

Lemma headers_del_headers_sbs keys p b s : headers (F.del_headers (sbs p b s) keys) = headers (F.del_headers p keys).
Proof. rewrite del_headers_sbs. reflexivity. Qed.

Lemma qrfu_sbs fc t p b s :
  F.queue_request_for_upstream fc t (sbs p b s) =
  match F.queue_request_for_upstream fc t p with Ok (r', w) => Ok (sbs r' b s, w) | Err e => Err e end.
Proof.
  unfold F.queue_request_for_upstream. cbv zeta. rewrite del_headers_sbs.
  set (r1 := F.del_headers p [F.PROXY_AUTHORIZATION; F.PROXY_CONNECTION]).
  destruct t; cbn [negb bind].
  - change (build (F.cf_agent fc) (sbs r1 b s) (F.cf_disable fc) false None) with (build (F.cf_agent fc) r1 (F.cf_disable fc) false None).
    destruct (build (F.cf_agent fc) r1 (F.cf_disable fc) false None); reflexivity.
  - change (F.via_value fc (sbs r1 b s)) with (F.via_value fc r1).
    destruct (F.via_value fc r1) as [v|e]; cbn [bind]; [|reflexivity].
    rewrite add_headers_sbs.
    change (build (F.cf_agent fc) (sbs ?q b s) (F.cf_disable fc) false None) with (build (F.cf_agent fc) q (F.cf_disable fc) false None).
    destruct (build (F.cf_agent fc) _ (F.cf_disable fc) false None); reflexivity.
Qed.

(* the request object inside an outcome *)
Definition req_map (f : parser -> parser) (st : F.hstate) : F.hstate := F.set_request st (f (F.h_request st)).
Definition omap (g : F.hstate -> F.hstate) (o : F.outcome) : F.outcome :=
  match o with F.Done b st => F.Done b (g st) | F.Raised e st => F.Raised e (g st) end.

Lemma orc_sbs fc ok p b s :
  F.on_request_complete fc ok (plugin_state0 (sbs p b s)) =
  omap (req_map (fun r => sbs r b s)) (F.on_request_complete fc ok (plugin_state0 p)).
Proof.
  unfold F.on_request_complete, plugin_state0, LR.plugin_state0.
  cbn [F.h_request F.set_plugin F.set_request].
  assert (Hb : F.before_upstream_connection fc (sbs p b s) =
               match F.before_upstream_connection fc p with Ok r => Ok (sbs r b s) | Err e => Err e end).
  { unfold F.before_upstream_connection. cbn [headers set_buffer_size].
    destruct (F.cf_auth_code fc) as [[|c0 ct]|]; try reflexivity.
    destruct (Auth.auth_ok _ _); reflexivity. }
  rewrite Hb. clear Hb.
  assert (Hr : forall r, F.before_upstream_connection fc p = Ok r -> r = p).
  { unfold F.before_upstream_connection. intros r.
    destruct (F.cf_auth_code fc) as [[|c0 ct]|]; try (intros H; inversion H; reflexivity).
    destruct (Auth.auth_ok _ _); intros H; inversion H; reflexivity. }
  destruct (F.before_upstream_connection fc p) as [r|e] eqn:Eb; [|reflexivity].
  rewrite (Hr r eq_refl). clear Hr Eb r.
  cbn [host port set_buffer_size is_https_tunnel].
  destruct (connect_upstream (fun _ => None) (host p) (Parser.port p)); [|reflexivity].
  destruct (negb ok); [reflexivity|].
  destruct (is_https_tunnel p); [reflexivity|].
  rewrite qrfu_sbs.
  destruct (F.queue_request_for_upstream fc false p) as [[r' w]|e]; reflexivity.
Qed.

(* ---- what on_request_complete leaves behind ---- *)
Record orc_post (p : parser) (st : F.hstate) : Prop := {
  op_plugin : F.h_plugin st = true;
  op_rest : FF.same_rest p (F.h_request st);
  op_size : total_size (F.h_request st) = total_size p;
  op_pipe : F.h_pipeline st = None }.

Lemma total_size_del_header p k : total_size (del_header p k) = total_size p.
Proof.
  unfold del_header. destruct (headers p) as [[|e d]|]; try reflexivity.
  destruct (dict_has (lower k) (e :: d)); reflexivity.
Qed.

Lemma qrfu_post fc t p r' w : F.queue_request_for_upstream fc t p = Ok (r', w) ->
  FF.same_rest p r' /\ total_size r' = total_size p.
Proof.
  unfold F.queue_request_for_upstream. cbv zeta.
  set (r1 := F.del_headers p [F.PROXY_AUTHORIZATION; F.PROXY_CONNECTION]).
  assert (H1 : FF.same_rest p r1 /\ total_size r1 = total_size p).
  { unfold r1, F.del_headers. cbn [fold_left]. split.
    - eapply FF.same_rest_trans; apply FF.same_rest_del.
    - rewrite !total_size_del_header. reflexivity. }
  destruct t; cbn [negb bind].
  - destruct (build _ r1 _ false None); intros H; inversion H; subst. exact H1.
  - destruct (F.via_value fc r1) as [v|e]; cbn [bind]; [|discriminate].
    destruct (build _ _ _ false None); intros H; inversion H; subst.
    destruct H1 as [H1 H2]. split.
    + eapply FF.same_rest_trans; [exact H1|]. unfold F.add_headers. cbn [fold_left]. apply FF.same_rest_add.
    + exact H2.
Qed.

Lemma orc_post_holds fc ok p : orc_post p (st_of (F.on_request_complete fc ok (plugin_state0 p))).
Proof.
  unfold F.on_request_complete, plugin_state0, LR.plugin_state0. cbn [F.h_request F.set_plugin F.set_request].
  assert (Hbase : orc_post p (F.set_plugin (F.set_request F.init_state p))).
  { split; try reflexivity. apply FF.same_rest_refl. }
  assert (Hr : forall r, F.before_upstream_connection fc p = Ok r -> r = p).
  { unfold F.before_upstream_connection. intros r.
    destruct (F.cf_auth_code fc) as [[|c0 ct]|]; try (intros H; inversion H; reflexivity).
    destruct (Auth.auth_ok _ _); intros H; inversion H; reflexivity. }
  destruct (F.before_upstream_connection fc p) as [r|e] eqn:Eb; [|exact Hbase].
  rewrite (Hr r eq_refl). clear Hr Eb r.
  destruct (connect_upstream (fun _ => None) (host p) (Parser.port p)); [|exact Hbase].
  destruct (negb ok); [exact Hbase|].
  destruct (is_https_tunnel p) eqn:Ht.
  - cbn [st_of LR.st_of]. split; try reflexivity. apply FF.same_rest_refl.
  - destruct (F.queue_request_for_upstream fc false p) as [[r' w]|e] eqn:Eq; cbn [st_of LR.st_of].
    + destruct (qrfu_post _ _ _ _ _ Eq) as [S1 S2]. split; try reflexivity; assumption.
    + split; try reflexivity. apply FF.same_rest_refl.
Qed.

(* ---- what on_client_data never touches ---- *)
Definition keeps (st st' : F.hstate) : Prop :=
  F.h_client st' = F.h_client st /\ F.h_plugin st' = F.h_plugin st /\ F.h_request st' = F.h_request st.
Definition never_true (o : F.outcome) : Prop := match o with F.Done true _ => False | _ => True end.

Lemma keeps_refl st : keeps st st.
Proof. repeat split. Qed.
Lemma keeps_trans a b c : keeps a b -> keeps b c -> keeps a c.
Proof. unfold keeps. intuition congruence. Qed.

Lemma round_keeps fc st raw :
  never_true (fst (F.on_client_data_round fc st raw)) /\ keeps st (st_of (fst (F.on_client_data_round fc st raw))).
Proof.
  unfold F.on_client_data_round, F.after_pipelined.
  destruct (F.h_upstream st) as [up|]; [|split; [exact I|apply keeps_refl]].
  destruct (F.up_closed up); [split; [exact I|apply keeps_refl]|].
  destruct (is_complete (F.h_request st) && negb (is_https_tunnel (F.h_request st)));
    [|split; [exact I|repeat split]].
  destruct (F.h_pipeline st) as [q|].
  - destruct ((negb (F.cf_upgrade_complete fc) || is_complete q) && F.is_connection_upgrade q);
      [split; [exact I|repeat split]|].
    destruct (parse q raw) as [q'|e]; [|split; [exact I|repeat split]].
    destruct (is_complete q'); [|split; [exact I|repeat split]].
    destruct (F.queue_request_for_upstream fc _ q') as [[q'' w]|e]; split; try exact I; repeat split.
  - destruct (parse (new_parser REQUEST_PARSER) raw) as [q'|e]; [|split; [exact I|repeat split]].
    destruct (is_complete q'); [|split; [exact I|repeat split]].
    destruct (F.queue_request_for_upstream fc _ q') as [[q'' w]|e]; split; try exact I; repeat split.
Qed.

Lemma loop_keeps fc : forall fuel st raw,
  never_true (F.on_client_data_loop fuel fc st raw) /\ keeps st (st_of (F.on_client_data_loop fuel fc st raw)).
Proof.
  induction fuel as [|f IH]; intros st raw; cbn [F.on_client_data_loop].
  - split; [exact I|apply keeps_refl].
  - pose proof (round_keeps fc st raw) as [N Kp].
    destruct (F.on_client_data_round fc st raw) as [[[|] st'|e st'] rem]; cbn [fst st_of LR.st_of] in *.
    + contradiction.
    + destruct rem as [r|]; [|split; [exact I|exact Kp]].
      destruct (IH st' r) as [N' K']. split; [exact N'|eapply keeps_trans; eassumption].
    + split; [exact I|exact Kp].
Qed.

Lemma ocd_keeps fc st raw :
  never_true (F.on_client_data fc st raw) /\ keeps st (st_of (F.on_client_data fc st raw)).
Proof. apply loop_keeps. Qed.

Lemma clear_buffer_id r : buffer r = None -> F.clear_buffer r = r.
Proof. intros H. destruct r. cbn in H. subst. reflexivity. Qed.
Lemma set_request_id st : F.set_request st (F.h_request st) = st.
Proof. destruct st; reflexivity. Qed.

(* ================================================================== the instance *)
Section Inst.
  Variable fc : F.fcfg.
  Variable ok : bool.          (* outcome of the socket-level connect *)
  Variable max_send : N.

  Definition agent : bytes := F.cf_agent fc.
  (* only HttpProxyPlugin is loaded (Forward's scope: the web server plugin is not enabled) *)
  Definition qcfg : Q.config :=
    {| Q.agent := agent; Q.plugin_klasses := Some [[HTTP_PROXY]]; Q.max_send := max_send |}.
  Definition pk : F.cpkt -> bytes := LR.pk agent.

  (* Forward's numbered exceptions as FirstRequest's exception classes *)
  Definition hexn_of (e : exn) : Q.hexn :=
    match e with
    | HttpProtocolException k =>
        if k =? 5 then Q.Proto R.ConnFailed else if k =? 6 then Q.Proto R.AuthFailed
        else Q.Proto (R.PlainProtocol k)
    | _ => Q.Other e
    end.

  (* the plugin's state when on_client_data is first called, and after a history of calls *)
  Definition base (rq : parser) : F.hstate :=
    let st1 := st_of (F.on_request_complete fc ok (plugin_state0 rq)) in
    F.set_request st1 (F.clear_buffer (F.h_request st1)).
  Definition replay (rq : parser) (hist : list bytes) : F.hstate :=
    fold_left (fun st d => st_of (F.on_client_data fc st d)) hist (base rq).

  (* THE INSTANCE of C06's abstract hooks *)
  Definition orc_inst (k : N) (p : parser) : list bytes * Q.orc_outcome :=
    match F.on_request_complete fc ok (plugin_state0 p) with
    | F.Done b st => (map pk (F.h_client st), Q.RetBool b)
    | F.Raised e st => (map pk (F.h_client st), Q.OrcRaise (hexn_of e))
    end.
  Definition ocd_inst (k : N) (rq : parser) (hist : list bytes) (raw : bytes) : list bytes * Q.ocd_outcome :=
    match F.on_client_data fc (replay rq hist) raw with
    | F.Done _ _ => ([], Q.OcdReturn)
    | F.Raised e _ => ([], Q.OcdRaise (hexn_of e))
    end.

  Lemma canon_hexn e : Q.canon (hexn_of e) = hexn_of e.
  Proof. destruct e; try reflexivity. cbn [hexn_of]. destruct (k =? 5); [reflexivity|]. destruct (k =? 6); reflexivity. Qed.

  Lemma pk_nonempty x : exists a t, pk x = a :: t.
  Proof. destruct x; eexists; eexists; vm_compute; reflexivity. Qed.

  Lemma base_clear p : base (F.clear_buffer p) = base p.
  Proof.
    unfold base, F.clear_buffer. rewrite orc_sbs.
    pose proof (orc_post_holds fc ok p) as [_ _ Hsz _].
    destruct (F.on_request_complete fc ok (plugin_state0 p)) as [b st1|e st1]; cbn [omap st_of LR.st_of] in *;
      unfold req_map; cbn [F.h_request F.set_request]; rewrite <- Hsz; reflexivity.
  Qed.

  Lemma fold_keeps hist : forall st0, keeps st0 (fold_left (fun st d => st_of (F.on_client_data fc st d)) hist st0).
  Proof.
    induction hist as [|d hist IH]; intros st0; [apply keeps_refl|].
    cbn [fold_left]. eapply keeps_trans; [apply ocd_keeps|apply IH].
  Qed.

  Lemma base_facts rq : is_complete rq = true ->
    F.h_plugin (base rq) = true /\ is_complete (F.h_request (base rq)) = true /\
    F.h_client (base rq) = F.h_client (st_of (F.on_request_complete fc ok (plugin_state0 rq))).
  Proof.
    intros Hc. unfold base. pose proof (orc_post_holds fc ok rq) as [Hp Hr _ _].
    cbv zeta. cbn [F.h_plugin F.h_request F.h_client F.set_request]. repeat split; try assumption.
    destruct Hr as (_ & Hst & _). unfold is_complete, F.clear_buffer in *. cbn [state set_buffer_size].
    rewrite Hst. exact Hc.
  Qed.

  Lemma replay_facts rq hist : is_complete rq = true ->
    F.h_plugin (replay rq hist) = true /\ is_complete (F.h_request (replay rq hist)) = true /\
    F.h_client (replay rq hist) = F.h_client (base rq).
  Proof.
    intros Hc. destruct (base_facts rq Hc) as (B1 & B2 & _).
    destruct (fold_keeps hist (base rq)) as (K1 & K2 & K3). fold (replay rq hist) in K1, K2, K3.
    rewrite K1, K2, K3. repeat split; assumption.
  Qed.

  (* ================================================================== the simulation *)
  (* everything ever queued for the client, flushed or not *)
  Definition all_client (h : Q.handler) : bytes := Q.sent h ++ concat (Q.buffer h).

  Inductive phase (h : Q.handler) (st : F.hstate) : Prop :=
  | PhaseA : Q.plugin h = None -> is_complete (Q.request h) = false -> Q.ocd h = [] ->
             st = F.set_request F.init_state (Q.request h) -> phase h st
  | PhaseB : Q.plugin h = Some 0 -> is_complete (Q.request h) = true -> buffer (Q.request h) = None ->
             st = replay (Q.request h) (Q.ocd h) -> phase h st.

  Definition inv (h : Q.handler) (st : F.hstate) : Prop :=
    phase h st /\ all_client h = concat (map pk (F.h_client st)).

  Definition out_rel (x : Q.handler * Q.hres bool) (o : F.outcome) : Prop :=
    match o with
    | F.Done false st' => snd x = Q.HOk false /\ inv (fst x) st'
    | F.Done true st' => snd x = Q.HOk true /\ all_client (fst x) = concat (map pk (F.h_client st'))
    | F.Raised e st' => snd x = Q.HErr (Q.Other e) /\ (forall k, e <> HttpProtocolException k) /\
                        all_client (fst x) = concat (map pk (F.h_client st'))
    end.

  (* the except clauses at the end of HttpProtocolHandler.handle_data *)
  Definition qfin (x : Q.handler * Q.hres bool) : Q.handler * Q.hres bool :=
    let '(h1, r) := x in
    match r with
    | Q.HErr (Q.Proto e) =>
        match R.exn_response agent e with
        | Some (a :: t) => (Q.queue_h h1 (a :: t) (Some e), Q.HOk true)
        | _ => ((if R.is_nil (Q.hq h1) then Q.set_exc h1 (Q.Proto e) else h1), Q.HOk true)
        end
    | Q.HErr (Q.Other e) => (h1, Q.HErr (Q.Other e))
    | Q.HOk b => (h1, Q.HOk b)
    end.

  Lemma all_client_queue_h h r site : all_client (Q.queue_h h r site) = all_client h ++ r.
  Proof. unfold all_client. cbn [Q.sent Q.buffer Q.queue_h Q.mk]. rewrite concat_app. cbn [concat]. rewrite app_nil_r, app_assoc. reflexivity. Qed.
  Lemma all_client_queue_p h q : all_client (Q.queue_p h q) = all_client h ++ concat q.
  Proof. unfold all_client. cbn [Q.sent Q.buffer Q.queue_p Q.mk]. rewrite concat_app, app_assoc. reflexivity. Qed.
  Lemma concat_map_snoc (l : list F.cpkt) x : concat (map pk (l ++ [x])) = concat (map pk l) ++ pk x.
  Proof. rewrite map_app, concat_app. cbn [map concat]. rewrite app_nil_r. reflexivity. Qed.

  Lemma tail_raise h1 e st' : all_client h1 = concat (map pk (F.h_client st')) ->
    out_rel (qfin (h1, Q.HErr (hexn_of e))) (FF.catch (F.Raised e st')).
  Proof.
    intros Ha. destruct e; cbn [hexn_of FF.catch qfin out_rel fst snd];
      try (split; [reflexivity|split; [intros k0 Hk; discriminate|exact Ha]]).
    unfold F.exc_response.
    destruct (k =? 5) eqn:E5.
    { cbn [R.exn_response]. destruct (pk_nonempty F.BadGateway) as (a & t & Hx).
      change (R.BAD_GATEWAY_RESPONSE_PKT agent) with (pk F.BadGateway). rewrite Hx.
      cbn [out_rel fst snd]. split; [reflexivity|].
      rewrite all_client_queue_h, Ha. cbn [F.queue_client F.h_client]. rewrite concat_map_snoc, Hx. reflexivity. }
    destruct (k =? 6) eqn:E6.
    { cbn [R.exn_response]. destruct (pk_nonempty F.AuthFailed) as (a & t & Hx).
      change (R.PROXY_AUTH_FAILED_RESPONSE_PKT agent) with (pk F.AuthFailed). rewrite Hx.
      cbn [out_rel fst snd]. split; [reflexivity|].
      rewrite all_client_queue_h, Ha. cbn [F.queue_client F.h_client]. rewrite concat_map_snoc, Hx. reflexivity. }
    cbn [R.exn_response out_rel fst snd]. split; [reflexivity|].
    destruct (R.is_nil (Q.hq h1)); exact Ha.
  Qed.

  Lemma handle_data_qfin h data :
    Q.handle_data qcfg orc_inst ocd_inst h data =
    qfin (if negb (is_complete (Q.request h)) then
            match Q.parse_first_request qcfg orc_inst h data with
            | (h1, Q.HOk true) => (h1, Q.HOk true)
            | (h1, Q.HOk false) => Q.hand_over_remainder ocd_inst h1
            | (h1, Q.HErr e) => (h1, Q.HErr e)
            end
          else match Q.plugin h with
               | Some k => Q.call_on_client_data ocd_inst h k data
               | None => (h, Q.HOk false)
               end).
  Proof. unfold Q.handle_data, qfin. reflexivity. Qed.

  (* handing data to the plugin: one more replay step *)
  Lemma serve_step h data rq :
    Q.plugin h = Some 0 -> Q.request h = rq -> is_complete rq = true -> buffer rq = None ->
    all_client h = concat (map pk (F.h_client (replay rq (Q.ocd h)))) ->
    out_rel (qfin (Q.call_on_client_data ocd_inst h 0 data))
            (FF.catch (F.on_client_data fc (replay rq (Q.ocd h)) data)).
  Proof.
    intros Hpl Hrq Hc Hb Ha. unfold Q.call_on_client_data, ocd_inst. rewrite Hrq.
    pose proof (ocd_keeps fc (replay rq (Q.ocd h)) data) as [Nt (K1 & K2 & K3)].
    destruct (F.on_client_data fc (replay rq (Q.ocd h)) data) as [[|] st'|e st'] eqn:Eo; cbn [never_true st_of LR.st_of] in *.
    - contradiction.
    - cbn [qfin FF.catch out_rel fst snd]. split; [reflexivity|]. split.
      + apply PhaseB.
        * exact Hpl.
        * change (Q.request (Q.queue_p (Q.note_ocd h data) [])) with (Q.request h). rewrite Hrq. exact Hc.
        * change (Q.request (Q.queue_p (Q.note_ocd h data) [])) with (Q.request h). rewrite Hrq. exact Hb.
        * change (Q.request (Q.queue_p (Q.note_ocd h data) [])) with (Q.request h).
          change (Q.ocd (Q.queue_p (Q.note_ocd h data) [])) with (Q.ocd h ++ [data]).
          rewrite Hrq. unfold replay at 1. rewrite fold_left_app. cbn [fold_left]. fold (replay rq (Q.ocd h)).
          rewrite Eo. reflexivity.
      + rewrite all_client_queue_p. cbn [concat]. rewrite app_nil_r, K1.
        change (all_client (Q.note_ocd h data)) with (all_client h). exact Ha.
    - rewrite canon_hexn. apply tail_raise.
      rewrite all_client_queue_p. cbn [concat]. rewrite app_nil_r, K1.
      change (all_client (Q.note_ocd h data)) with (all_client h). exact Ha.
  Qed.

  (* MAIN LINK of this file *)
  Theorem handle_data_sim h st data : inv h st ->
    out_rel (Q.handle_data qcfg orc_inst ocd_inst h data) (F.handle_data fc ok st data).
  Proof.
    intros [Hph Ha]. rewrite handle_data_qfin.
    destruct Hph as [Hpl Hinc Hocd Hst | Hpl Hc Hb Hst].
    2:{ (* ---- serving: the plugin gets the data ---- *)
        rewrite Hc, Hpl. cbn [negb].
        destruct (replay_facts (Q.request h) (Q.ocd h) Hc) as (R1 & R2 & R3). rewrite <- Hst in R1, R2.
        rewrite (FF.handle_data_later fc ok st data); [|apply N.eqb_eq; exact R2|exact R1].
        subst st. apply serve_step; auto. }
    (* ---- the first request ---- *)
    rewrite Hinc. cbn [negb].
    assert (Hcl : F.h_client st = []) by (subst st; reflexivity).
    rewrite Hcl in Ha. cbn [map concat] in Ha.
    rewrite (FF.handle_data_first fc ok st data);
      [|subst st; cbn [F.h_request F.set_request]; apply N.eqb_neq; exact Hinc].
    unfold Q.parse_first_request, F.parse_first_request.
    replace (F.h_request st) with (Q.request h) by (subst st; reflexivity).
    destruct (parse (Q.request h) data) as [p|e] eqn:Hparse.
    2:{ (* unparsable: 400 and teardown *)
        assert (Hq : forall k, out_rel
                  (qfin (Q.queue_h (Q.note_parse h) (Q.BAD_REQUEST qcfg) None, Q.HErr (Q.Proto (R.PlainProtocol k))))
                  (FF.catch (F.first_remainder fc (F.Raised F.EXC_PARSE (F.queue_client st F.BadRequest))))).
        { intros k. cbn [F.first_remainder FF.catch F.EXC_PARSE F.exc_response N.eqb Pos.eqb qfin R.exn_response out_rel fst snd].
          split; [reflexivity|].
          assert (E : all_client (Q.queue_h (Q.note_parse h) (Q.BAD_REQUEST qcfg) None) = concat (map pk (F.h_client (F.queue_client st F.BadRequest)))).
          { rewrite all_client_queue_h. change (all_client (Q.note_parse h)) with (all_client h). rewrite Ha.
            cbn [F.queue_client F.h_client]. rewrite Hcl. cbn [app map concat]. rewrite app_nil_r. reflexivity. }
          destruct (R.is_nil _); exact E. }
        destruct e; apply Hq. }
    set (h1 := Q.set_request (Q.note_parse h) p).
    set (st1 := F.set_request st p).
    assert (Ha1 : all_client h1 = []) by exact Ha.
    destruct (is_complete p) eqn:Hcp; cbn [negb].
    2:{ (* still incomplete *)
        unfold Q.hand_over_remainder. change (Q.request h1) with p. rewrite Hcp.
        assert (Efr : F.first_remainder fc (F.Done false st1) = F.Done false st1).
        { cbn [F.first_remainder]. change (F.h_request st1) with p. rewrite Hcp.
          destruct (buffer p) as [[|b0 bt]|]; reflexivity. }
        rewrite Efr. cbn [qfin FF.catch out_rel fst snd]. split; [reflexivity|]. split.
        - apply PhaseA; [exact Hpl|exact Hcp|exact Hocd|subst st; reflexivity].
        - rewrite Ha1. subst st. reflexivity. }
    (* complete: 400 for anything but a proxy request *)
    assert (Hbad : out_rel (qfin (Q.queue_h h1 (Q.BAD_REQUEST qcfg) None, Q.HOk true))
                           (FF.catch (F.first_remainder fc (F.Done true (F.queue_client st1 F.BadRequest))))).
    { cbn [F.first_remainder FF.catch qfin out_rel fst snd]. split; [reflexivity|].
      rewrite all_client_queue_h, Ha1. cbn [F.queue_client F.h_client]. subst st1 st. cbn [F.h_client F.set_request F.init_state app map concat].
      rewrite app_nil_r. reflexivity. }
    destruct (http_handler_protocol p) eqn:Hproto; [exact Hbad|exact Hbad|].
    (* a proxy request: HttpProxyPlugin is instantiated, on_request_complete runs *)
    change (Q.discover_plugin_klass qcfg HTTP_PROXY) with (Some 0). cbv iota.
    assert (Eps : F.set_plugin st1 = plugin_state0 p) by (subst st1 st; reflexivity).
    rewrite Eps. unfold orc_inst.
    pose proof (orc_post_holds fc ok p) as [OPl ORest OSize OPipe].
    destruct (F.on_request_complete fc ok (plugin_state0 p)) as [b st2|e st2] eqn:Horc; cbn [st_of LR.st_of] in *.
    2:{ (* the hook raised *)
        rewrite canon_hexn. change (F.first_remainder fc (F.Raised e st2)) with (F.Raised e st2).
        apply tail_raise. change (all_client (Q.note_orc (Q.queue_p (Q.set_plugin h1 0) (map pk (F.h_client st2)))))
          with (all_client (Q.queue_p (Q.set_plugin h1 0) (map pk (F.h_client st2)))).
        rewrite all_client_queue_p. change (all_client (Q.set_plugin h1 0)) with (all_client h1). rewrite Ha1. reflexivity. }
    set (h2 := Q.note_orc (Q.queue_p (Q.set_plugin h1 0) (map pk (F.h_client st2)))).
    assert (Ha2 : all_client h2 = concat (map pk (F.h_client st2))).
    { change (all_client h2) with (all_client (Q.queue_p (Q.set_plugin h1 0) (map pk (F.h_client st2)))).
      rewrite all_client_queue_p. change (all_client (Q.set_plugin h1 0)) with (all_client h1). rewrite Ha1. reflexivity. }
    destruct b.
    { cbn [F.first_remainder FF.catch qfin out_rel fst snd]. split; [reflexivity|exact Ha2]. }
    (* on_request_complete returned False: hand the remainder of the segment over *)
    unfold Q.hand_over_remainder. change (Q.request h2) with p. change (Q.plugin h2) with (Some 0%N). rewrite Hcp.
    cbn [F.first_remainder].
    assert (Hbuf : buffer (F.h_request st2) = buffer p) by (destruct ORest as (_ & _ & _ & _ & _ & _ & _ & _ & _ & _ & Hb); exact Hb).
    assert (Hcomp2 : is_complete (F.h_request st2) = true).
    { destruct ORest as (_ & Hs & _). unfold is_complete in *. rewrite Hs. exact Hcp. }
    rewrite Hbuf, Hcomp2, OPl. cbn [andb].
    assert (Hbase : base p = F.set_request st2 (F.clear_buffer (F.h_request st2))).
    { unfold base. rewrite Horc. reflexivity. }
    destruct (PE.parse_buffer_shape _ _ _ Hparse) as [Hnone | (x & t & Hsome)].
    - (* nothing after the request in this segment *)
      rewrite Hnone. cbn [qfin FF.catch out_rel fst snd]. split; [reflexivity|]. split; [|exact Ha2].
      apply PhaseB; try reflexivity; try assumption.
      change (Q.request h2) with p. change (Q.ocd h2) with (Q.ocd h). rewrite Hocd. unfold replay. cbn [fold_left].
      rewrite Hbase, clear_buffer_id by (rewrite Hbuf; exact Hnone). symmetry. apply set_request_id.
    - (* bytes after the request: plugin.on_client_data(remainder) in the same call *)
      rewrite Hsome.
      set (rq := set_buffer_size p None (total_size p)).
      assert (Erq : base rq = base p) by apply base_clear.
      assert (Hcrq : is_complete rq = true) by exact Hcp.
      assert (Hrep : replay rq [] = F.set_request st2 (F.clear_buffer (F.h_request st2))).
      { unfold replay. cbn [fold_left]. rewrite Erq. exact Hbase. }
      pose proof (serve_step (Q.set_request h2 rq) (x :: t) rq eq_refl eq_refl Hcrq eq_refl) as S.
      change (Q.ocd (Q.set_request h2 rq)) with (Q.ocd h) in S. rewrite Hocd, Hrep in S.
      apply S. change (all_client (Q.set_request h2 rq)) with (all_client h2). exact Ha2.
  Qed.
End Inst.

(* ================================================================== every list of segments *)
Section Feed.
  Variable fc : F.fcfg.
  Variable ok : bool.
  Variable max_send : N.

  (* handle_data on each received segment, until it returns True or raises
     (what BaseTcpServerHandler.handle_readables does with the recv() results) *)
  Fixpoint qfeed (h : Q.handler) (pieces : list bytes) : Q.handler * Q.hres bool :=
    match pieces with
    | [] => (h, Q.HOk false)
    | x :: t =>
        match Q.handle_data (qcfg fc max_send) (orc_inst fc ok) (ocd_inst fc ok) h x with
        | (h', Q.HOk false) => qfeed h' t
        | r => r
        end
    end.

  Lemma init_inv : inv fc ok Q.new_handler F.init_state.
  Proof. split; [apply PhaseA; reflexivity|reflexivity]. Qed.

  Theorem feed_sim : forall pieces h st, inv fc ok h st ->
    out_rel fc ok (qfeed h pieces) (F.feed fc ok st pieces).
  Proof.
    induction pieces as [|x t IH]; intros h st Hi.
    - cbn [qfeed F.feed out_rel fst snd]. split; [reflexivity|exact Hi].
    - cbn [qfeed F.feed]. pose proof (handle_data_sim fc ok max_send h st x Hi) as R.
      destruct (Q.handle_data (qcfg fc max_send) (orc_inst fc ok) (ocd_inst fc ok) h x) as [h' r].
      destruct (F.handle_data fc ok st x) as [[|] st'|e st']; cbn [out_rel fst snd] in R.
      + destruct R as [-> R]. cbn [out_rel fst snd]. split; [reflexivity|exact R].
      + destruct R as [-> R]. apply IH. exact R.
      + destruct R as (-> & R). cbn [out_rel fst snd]. split; [reflexivity|exact R].
  Qed.

  (* from a fresh connection: what the client is sent (as bytes) is what Forward names *)
  Corollary client_bytes_agree pieces :
    let (h, r) := qfeed Q.new_handler pieces in
    match F.feed fc ok F.init_state pieces with
    | F.Done b st => r = Q.HOk b /\ Q.sent h ++ concat (Q.buffer h) = concat (map (pk fc) (F.h_client st))
    | F.Raised e st => r = Q.HErr (Q.Other e) /\ Q.sent h ++ concat (Q.buffer h) = concat (map (pk fc) (F.h_client st))
    end.
  Proof.
    pose proof (feed_sim pieces _ _ init_inv) as R.
    destruct (qfeed Q.new_handler pieces) as [h r].
    destruct (F.feed fc ok F.init_state pieces) as [[|] st|e st]; cbn [out_rel fst snd] in R.
    - exact R.
    - destruct R as [-> [_ R]]. split; [reflexivity|exact R].
    - destruct R as (-> & _ & R). split; [reflexivity|exact R].
  Qed.
End Feed.

(* non-vacuity: --basic-auth on, request without credentials, cut in two segments: both models queue the 407 *)
Definition fc_auth : F.fcfg :=
  {| F.cf_agent := bs "proxy.py v2.4"; F.cf_disable := []; F.cf_auth_code := Some (bs "dXNlcjpwYXNz");
     F.cf_via_append := true; F.cf_upgrade_complete := true |}.
Example feed_sim_example_407 :
  let pieces := [bs "GET http://h/ HT"; bs "TP/1.1" ++ CRLF ++ bs "Host: h" ++ CRLF ++ CRLF] in
  match qfeed fc_auth true 65536 Q.new_handler pieces, F.feed fc_auth true F.init_state pieces with
  | (h, Q.HOk true), F.Done true st =>
      Q.buffer h = [R.PROXY_AUTH_FAILED_RESPONSE_PKT (bs "proxy.py v2.4")] /\ F.h_client st = [F.AuthFailed]
  | _, _ => False
  end.
Proof. vm_compute. split; reflexivity. Qed.
