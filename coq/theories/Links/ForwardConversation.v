(* Model coherence, part 3a: HttpProtocolHandler.handle_data -> _parse_first_request ->
   HttpProxyPlugin.on_request_complete / on_client_data are modelled
     - in Net/Forward.v       (C02: forward proxy only, AuthPlugin optional, connect outcome an input,
                               upstream = the list of queued pieces, client packets by NAME),
     - in Net/Conversation.v  (C04: forward proxy + web server + reverse proxy, several upstream
                               connections with send cursors, client packets as BYTES, status field).
   Both use the real parser/builder models.  This file proves that, for the forward proxy without
   --basic-auth, with a succeeding connect and the web server plugin not loaded (the intersection
   of the two scopes), the two handle_data functions are in LOCK-STEP SIMULATION for every state
   pair in the relation [sim] and every input segment, hence for every list of segments:
   same request / pipeline parser states, same pieces queued on the current upstream connection,
   same packets queued for the client, same teardown decision, same escaping exception. *)
From PM Require Import Lib.Bytes Lib.BytesFacts Lib.PyStr Http.Url Http.Chunk Http.Parser Http.Builders Http.Upstream.
From PM Require Net.Forward Net.ForwardFacts Net.Conversation Net.ConversationLink Links.ParseErrors.
From Coq Require Import ZArith Lia.

Module F := PM.Net.Forward.
Module FF := PM.Net.ForwardFacts.
Module K := PM.Net.Conversation.
Module PE := PM.Links.ParseErrors.

(* ------------------------------------------------------------------ list helpers *)
Lemma nth_error_snoc {A} (l : list A) x : nth_error (l ++ [x]) (length l) = Some x.
Proof. rewrite nth_error_app2 by lia. rewrite Nat.sub_diag. reflexivity. Qed.

Lemma nth_error_upd_nth {A} (f : A -> A) : forall (l : list A) k u,
  nth_error l k = Some u -> nth_error (K.upd_nth k f l) k = Some (f u).
Proof.
  induction l as [|x l IH]; intros [|k] u H; cbn [nth_error K.upd_nth] in *; try discriminate.
  - inversion H. reflexivity.
  - apply IH. exact H.
Qed.

Lemma build_err_assert ua p dh ho e : build ua p dh false ho = Err e -> e = AssertionError.
Proof.
  unfold build. destruct (negb _); [intros H; inversion H; reflexivity|].
  rewrite FF.get_body_or_chunks_wire. cbn [bind]. discriminate.
Qed.

Lemma rebuild_same_rest c t p : FF.same_rest p (fst (K.rebuild_for_upstream c t p)).
Proof.
  unfold K.rebuild_for_upstream. cbv zeta. cbn [fst].
  assert (H1 : FF.same_rest p (del_header (del_header p K.PROXY_AUTHORIZATION) K.PROXY_CONNECTION)).
  { eapply FF.same_rest_trans; apply FF.same_rest_del. }
  destruct t; [exact H1|].
  eapply FF.same_rest_trans; [exact H1|apply FF.same_rest_add].
Qed.

Section Sim.
  Variable agent : bytes.
  Variable c : K.cfg.
  Hypothesis Hvia : K.via_value c = F.via_entry agent.
  Hypothesis Hproxy : K.has_proxy c = true.
  Hypothesis Hweb : K.has_web c = false.

  Definition fc : F.fcfg := ConversationLink.fcfg_of agent c.

  (* Forward names the client packets, Conversation carries their bytes *)
  Definition kpk (x : F.cpkt) : bytes :=
    match x with F.BadRequest => K.bad_request_pkt c | F.TunnelEstablished => K.ack_pkt c | _ => [] end.

  (* the plugin's CURRENT upstream connection: same queued pieces, same closed flag *)
  Definition up_rel (fs : F.hstate) (ks : K.hstate) : Prop :=
    match F.h_upstream fs, K.upstream ks with
    | None, None => True
    | Some up, Some k => exists u, nth_error (K.conns ks) k = Some u /\
                                   K.up_queued u = F.up_queue up /\ K.up_closed u = F.up_closed up
    | _, _ => False
    end.

  (* observables *)
  Record osim (fs : F.hstate) (ks : K.hstate) : Prop := {
    os_client : K.client_q ks = map kpk (F.h_client fs);
    os_up : up_rel fs ks;
    os_alive : K.stat ks = K.Alive }.

  (* full simulation relation *)
  Record sim (fs : F.hstate) (ks : K.hstate) : Prop := {
    s_obs : osim fs ks;
    s_req : K.request ks = F.h_request fs;
    s_plugin : K.plugin ks = if F.h_plugin fs then K.PProxy else K.PNone;
    s_pipe : K.pipeline_request ks = F.h_pipeline fs }.

  (* exceptions: equal, except that the two models number HttpProtocolException kinds differently;
     what matters is that the Forward side's kind carries no response *)
  Definition exn_rel (e e' : exn) : Prop :=
    match e with
    | HttpProtocolException k => F.exc_response k = None /\ exists k', e' = HttpProtocolException k'
    | _ => e' = e
    end.

  Lemma exn_rel_refl_assert : exn_rel AssertionError AssertionError.
  Proof. reflexivity. Qed.

  Lemma exn_rel_parser e : PE.parser_exn e -> exn_rel e e.
  Proof.
    intros H. destruct e; try reflexivity. cbn [exn_rel]. split; [|eauto].
    destruct (H k eq_refl) as [-> | ->]; reflexivity.
  Qed.

  (* a hook of the plugin: Forward's outcome against Conversation's (state, result) *)
  Definition res_rel {A} (o : F.outcome) (r : K.hstate * result A) (ok : bool -> A -> Prop) : Prop :=
    match o, r with
    | F.Done b fs', (ks', Ok a) => ok b a /\ (if b then osim fs' ks' else sim fs' ks')
    | F.Raised e fs', (ks', Err e') => exn_rel e e' /\ osim fs' ks'
    | _, _ => False
    end.

  (* ---------------------------------------------------------------- on_request_complete *)
  Lemma orc_sim fs ks : sim fs ks ->
    res_rel (F.on_request_complete fc true fs) (K.proxy_on_request_complete c ks) (fun b a => a = b).
  Proof.
    intros [[Hc Hu Ha] Hr Hp Hq].
    unfold F.on_request_complete, F.before_upstream_connection. cbn [F.cf_auth_code fc ConversationLink.fcfg_of].
    unfold K.proxy_on_request_complete, K.connect_upstream, connect_upstream. rewrite Hr.
    set (r := F.h_request fs) in *.
    destruct (host r) as [[|hx ht]|] eqn:Hh; destruct (Parser.port r) as [z|] eqn:Hz;
      cbn [length Nat.eqb negb andb res_rel];
      try (split; [cbn [exn_rel F.exc_response N.eqb Pos.eqb]; split; [reflexivity|eauto]|split; assumption]).
    destruct (z =? 0)%Z; cbn [negb andb res_rel];
      [split; [cbn [exn_rel F.exc_response N.eqb Pos.eqb]; split; [reflexivity|eauto]|split; assumption]|].
    destruct ((0 <? z)%Z && (z <=? 65535)%Z); cbn [negb res_rel];
      [|split; [cbn [exn_rel F.exc_response N.eqb Pos.eqb]; split; [reflexivity|eauto]|split; assumption]].
    unfold text_. destruct (utf8_valid (hx :: ht)); cbn [bind res_rel];
      [|split; [reflexivity|split; assumption]].
    cbn [negb].
    set (u0 := K.mkUp (hx :: ht) z [] 0 false).
    set (ks1 := K.set_upstream (Some (length (K.conns ks))) (K.set_conns (K.conns ks ++ [u0]) ks)).
    change (K.upstream ks1) with (Some (length (K.conns ks))). cbv iota.
    change (K.request ks1) with (K.request ks). rewrite Hr. fold r.
    destruct (is_https_tunnel r) eqn:Htun.
    - (* CONNECT: 200 Connection established *)
      cbn [res_rel]. split; [reflexivity|]. split; [split| | |].
      + change (K.client_q ks ++ [K.ack_pkt c] = map kpk (F.h_client fs ++ [F.TunnelEstablished])).
        rewrite map_app, Hc. reflexivity.
      + exists u0. split; [apply nth_error_snoc|split; reflexivity].
      + exact Ha.
      + exact Hr.
      + exact Hp.
      + exact Hq.
    - (* plain request: rebuilt and queued on the new connection *)
      pose proof (ConversationLink.rebuild_agrees agent c false r Hvia) as RA. fold fc in RA. rewrite RA.
      destruct (K.rebuild_for_upstream c false r) as [rq [x|e]] eqn:Hrb.
      + cbn [res_rel]. split; [reflexivity|]. split; [split| | |].
        * exact Hc.
        * exists (K.up_add x u0). split; [apply (nth_error_upd_nth (K.up_add x)), nth_error_snoc|split; reflexivity].
        * exact Ha.
        * reflexivity.
        * exact Hp.
        * exact Hq.
      + cbn [res_rel]. assert (He : e = AssertionError).
        { unfold K.rebuild_for_upstream in Hrb. inversion Hrb as [[H1 H2]]. eapply build_err_assert. exact H2. }
        subst e. split; [reflexivity|]. split.
        * exact Hc.
        * exists u0. split; [apply nth_error_snoc|split; reflexivity].
        * exact Ha.
  Qed.

  (* ---------------------------------------------------------------- _on_client_data: one round *)
  Definition round_rel (x : F.outcome * option bytes) (y : K.hstate * result (option bytes)) : Prop :=
    match x, y with
    | (F.Done false fs', rem), (ks', Ok rem') => rem = rem' /\ sim fs' ks'
    | (F.Raised e fs', _), (ks', Err e') => exn_rel e e' /\ osim fs' ks'
    | _, _ => False
    end.

  Lemma is_connection_upgrade_same p : F.is_connection_upgrade p = K.is_connection_upgrade p.
  Proof. reflexivity. Qed.

  Lemma round_sim fs ks raw : sim fs ks ->
    round_rel (F.on_client_data_round fc fs raw) (K.proxy_round c ks raw).
  Proof.
    intros [[Hc Hu Ha] Hr Hp Hq].
    unfold F.on_client_data_round, K.proxy_round. unfold up_rel in Hu.
    destruct (F.h_upstream fs) as [up|] eqn:Hfu; destruct (K.upstream ks) as [k|] eqn:Hku; try contradiction.
    2:{ cbn [round_rel]. split; [reflexivity|]. split; [split|..]; try assumption. unfold up_rel. rewrite Hfu, Hku. exact I. }
    destruct Hu as (u & Hn & Hqd & Hcl).
    assert (Hsim : sim fs ks).
    { split; [split|..]; try assumption. unfold up_rel. rewrite Hfu, Hku. eauto. }
    unfold K.conn_closed. rewrite Hn, Hcl.
    destruct (F.up_closed up) eqn:Hclosed; [cbn [round_rel]; split; [reflexivity|exact Hsim]|].
    rewrite Hr.
    (* relaying [raw] verbatim: tunnel, or after a complete upgrade request *)
    assert (Hrelay : round_rel (F.Done false (F.set_upstream fs (Some (F.queue_upstream up raw))), None)
                               (K.up_queue k raw ks, Ok None)).
    { cbn [round_rel]. split; [reflexivity|]. split; [split|..]; try assumption.
      unfold up_rel. cbn [F.h_upstream F.set_upstream]. change (K.upstream (K.up_queue k raw ks)) with (K.upstream ks).
      rewrite Hku. exists (K.up_add raw u). split; [apply (nth_error_upd_nth (K.up_add raw)); exact Hn|].
      split; [cbn [K.up_queued K.up_add F.up_queue F.queue_upstream]; rewrite Hqd; reflexivity|change (K.up_closed u = F.up_closed up); congruence]. }
    destruct (is_complete (F.h_request fs) && negb (is_https_tunnel (F.h_request fs))); [|exact Hrelay].
    rewrite Hq. cbn [F.cf_upgrade_complete fc ConversationLink.fcfg_of negb orb].
    (* what both models do once the pipelined parser has consumed [raw] *)
    assert (Hparsed : forall (q0 : option parser) pr fsE,
      (match q0 with Some p => p | None => new_parser REQUEST_PARSER end) = pr ->
      K.pipeline_request ks = q0 ->
      osim fsE ks ->
      round_rel
        match parse pr raw with
        | Err e => (F.Raised e fsE, None)
        | Ok q' =>
            if is_complete q' then
              match F.queue_request_for_upstream fc (is_https_tunnel (F.h_request fs)) q' with
              | Err e => (F.Raised e (F.set_pipeline fs (Some q')), None)
              | Ok (q'', w) => F.after_pipelined fs up q'' w
              end
            else (F.Done false (F.set_pipeline fs (Some q')), None)
        end
        (K.pipeline_round (K.proxy_forward c k) ks raw)).
    { intros q0 pr fsE Hpr Hkq HE. unfold K.pipeline_round. rewrite Hkq, Hpr.
      destruct (parse pr raw) as [q'|e] eqn:Hparse.
      2:{ cbn [round_rel]. split; [apply exn_rel_parser; eapply PE.parse_exn_kinds; exact Hparse|exact HE]. }
      destruct (is_complete q') eqn:Hcq.
      2:{ cbn [round_rel]. split; [reflexivity|]. split; [split|..]; try assumption.
          unfold up_rel. cbn [F.h_upstream F.set_pipeline]. change (K.upstream (K.set_pipeline (Some q') ks)) with (K.upstream ks).
          rewrite Hfu, Hku. eauto. reflexivity. }
      pose proof (ConversationLink.rebuild_agrees agent c (is_https_tunnel (F.h_request fs)) q' Hvia) as RA.
      fold fc in RA. rewrite RA. unfold K.proxy_forward. rewrite Hr.
      pose proof (rebuild_same_rest c (is_https_tunnel (F.h_request fs)) q') as SR.
      destruct (K.rebuild_for_upstream c (is_https_tunnel (F.h_request fs)) q') as [pr2 [x|e]] eqn:Hrb; cbn [fst] in SR.
      - unfold F.after_pipelined. cbv zeta. rewrite is_connection_upgrade_same.
        assert (Hbuf : buffer pr2 = buffer q') by (destruct SR as (_ & _ & _ & _ & _ & _ & _ & _ & _ & _ & Hb); exact Hb).
        cbn [round_rel]. split; [exact Hbuf|].
        split; [split|..].
        + exact Hc.
        + unfold up_rel. cbn [F.h_upstream F.set_pipeline F.set_upstream].
          change (K.upstream (K.set_pipeline _ (K.up_queue k x ks))) with (K.upstream ks). rewrite Hku.
          exists (K.up_add x u). split; [apply (nth_error_upd_nth (K.up_add x)); exact Hn|].
          split; [cbn [K.up_queued K.up_add F.up_queue F.queue_upstream]; rewrite Hqd; reflexivity|change (K.up_closed u = F.up_closed up); congruence].
        + exact Ha.
        + exact Hr.
        + exact Hp.
        + cbn [K.pipeline_request K.set_pipeline F.h_pipeline F.set_pipeline F.set_upstream].
          destruct (K.is_connection_upgrade pr2); reflexivity.
      - assert (He : e = AssertionError).
        { unfold K.rebuild_for_upstream in Hrb. inversion Hrb as [[H1 H2]]. eapply build_err_assert. exact H2. }
        subst e. cbn [round_rel]. split; [reflexivity|]. split; try assumption.
        unfold up_rel. cbn [F.h_upstream F.set_pipeline]. rewrite Hfu, Hku. eauto. }
    destruct (F.h_pipeline fs) as [q|] eqn:Hfq.
    - rewrite is_connection_upgrade_same.
      destruct (is_complete q && K.is_connection_upgrade q); [exact Hrelay|].
      apply (Hparsed (Some q) q fs eq_refl Hq). split; try assumption. unfold up_rel. rewrite Hfu, Hku. eauto.
    - apply (Hparsed None (new_parser REQUEST_PARSER) (F.set_pipeline fs (Some (new_parser REQUEST_PARSER))) eq_refl Hq).
      split; try assumption. unfold up_rel. cbn [F.h_upstream F.set_pipeline]. rewrite Hfu, Hku. eauto.
  Qed.

  (* ---------------------------------------------------------------- on_client_data: the while loop *)
  Definition unit_rel (o : F.outcome) (r : K.hstate * result unit) : Prop :=
    match o, r with
    | F.Done false fs', (ks', Ok _) => sim fs' ks'
    | F.Raised e fs', (ks', Err e') => exn_rel e e' /\ osim fs' ks'
    | _, _ => False
    end.

  Lemma loop_sim : forall fuel fs ks raw, sim fs ks ->
    unit_rel (F.on_client_data_loop fuel fc fs raw) (K.pipeline_loop fuel (K.proxy_round c) ks raw).
  Proof.
    induction fuel as [|f IH]; intros fs ks raw Hs; cbn [F.on_client_data_loop K.pipeline_loop].
    - cbn [unit_rel]. split; [reflexivity|apply Hs].
    - pose proof (round_sim fs ks raw Hs) as R.
      destruct (F.on_client_data_round fc fs raw) as [[[|] fs'|e fs'] rem];
        destruct (K.proxy_round c ks raw) as [ks' [rem'|e']]; cbn [round_rel] in R; try contradiction.
      + destruct R as [<- Hs']. destruct rem as [r|]; [apply IH; exact Hs'|exact Hs'].
      + exact R.
  Qed.

  Lemma ocd_sim fs ks raw : sim fs ks -> F.h_plugin fs = true ->
    unit_rel (F.on_client_data fc fs raw) (K.plugin_on_client_data c ks raw).
  Proof.
    intros Hs Hpl. unfold F.on_client_data, K.plugin_on_client_data.
    rewrite (s_plugin _ _ Hs), Hpl.
    replace (K.loop_fuel ks raw) with (S (length (F.carried fs) + length raw)).
    - apply loop_sim. exact Hs.
    - unfold K.loop_fuel, K.buffer_len, F.carried. rewrite (s_pipe _ _ Hs).
      destruct (F.h_pipeline fs) as [q|]; [destruct (buffer q)|]; reflexivity.
  Qed.

  (* ---------------------------------------------------------------- _parse_first_request *)
  Lemma pfr_sim fs ks data : sim fs ks ->
    res_rel (F.parse_first_request fc true fs data) (K.parse_first_request c ks data) (fun b a => a = b).
  Proof.
    intros Hs. pose proof Hs as [[Hc Hu Ha] Hr Hp Hq].
    unfold F.parse_first_request, K.parse_first_request. rewrite Hr.
    destruct (parse (F.h_request fs) data) as [rq|e].
    2:{ cbn [res_rel]. split; [cbn [exn_rel F.EXC_PARSE F.exc_response N.eqb Pos.eqb]; split; [reflexivity|eauto]|].
        split; [|exact Hu|exact Ha].
        change (K.client_q ks ++ [K.bad_request_pkt c] = map kpk (F.h_client fs ++ [F.BadRequest])).
        rewrite map_app, Hc. reflexivity. }
    assert (Hs1 : sim (F.set_request fs rq) (K.set_request rq ks)).
    { split; [split|..]; try assumption. reflexivity. }
    destruct (is_complete rq); cbn [negb].
    2:{ cbn [res_rel]. split; [reflexivity|exact Hs1]. }
    assert (Hbad : res_rel (F.Done true (F.queue_client (F.set_request fs rq) F.BadRequest))
                           (K.client_queue (K.bad_request_pkt c) (K.set_request rq ks), Ok true) (fun b a => a = b)).
    { cbn [res_rel]. split; [reflexivity|]. split; [|exact Hu|exact Ha].
      change (K.client_q ks ++ [K.bad_request_pkt c] = map kpk (F.h_client fs ++ [F.BadRequest])).
      rewrite map_app, Hc. reflexivity. }
    destruct (http_handler_protocol rq); [exact Hbad|rewrite Hweb; exact Hbad|].
    rewrite Hproxy. apply orc_sim.
    split; [split|..]; try assumption; reflexivity.
  Qed.

  (* ---------------------------------------------------------------- handle_data *)
  (* the state after handle_data, against Forward's outcome *)
  Definition final_rel (o : F.outcome) (ks' : K.hstate) : Prop :=
    match o with
    | F.Done false fs' => sim fs' ks'
    | F.Done true fs' =>
        K.stat ks' = K.Closed /\ K.client_q ks' = map kpk (F.h_client fs') /\ up_rel fs' ks'
    | F.Raised e fs' =>
        (forall k, e <> HttpProtocolException k) /\
        K.stat ks' = K.Raised e /\ K.client_q ks' = map kpk (F.h_client fs') /\ up_rel fs' ks'
    end.

  Lemma close_conn_final fs' ks' : osim fs' ks' ->
    K.stat (K.close_conn ks') = K.Closed /\ K.client_q (K.close_conn ks') = map kpk (F.h_client fs') /\ up_rel fs' (K.close_conn ks').
  Proof.
    intros [Hc Hu Ha]. unfold K.close_conn. rewrite Ha. repeat split; [exact Hc|exact Hu].
  Qed.

  (* what handle_data's except clauses and handle_events make of a hook result *)
  Lemma finish_sim (o : F.outcome) (r : K.hstate * result bool) :
    res_rel o r (fun b a => a = b) ->
    final_rel (FF.catch o)
      (match r with
       | (s1, Ok false) => s1
       | (s1, Ok true) => K.close_conn s1
       | (s1, Err (HttpProtocolException _)) => K.close_conn s1
       | (s1, Err e) => K.raise_exn e s1
       end).
  Proof.
    destruct o as [b fs'|e fs']; destruct r as [ks' [a|e']]; cbn [res_rel]; try contradiction.
    - intros [-> H]. destruct b; cbn [FF.catch final_rel]; [apply close_conn_final; exact H|exact H].
    - intros [He Ho]. destruct e; cbn [exn_rel] in He; try subst e'; cbn [FF.catch final_rel].
      8:{ destruct He as [Hnone (k' & ->)]. rewrite Hnone. apply close_conn_final. exact Ho. }
      all: split; [intros k0 Hk; discriminate|];
        destruct Ho as [Hc Hu Ha]; unfold K.raise_exn; rewrite Ha; repeat split; assumption.
  Qed.

  Theorem handle_data_sim fs ks data : sim fs ks ->
    final_rel (F.handle_data fc true fs data) (K.handle_data c ks data).
  Proof.
    intros Hs. pose proof Hs as [[Hc Hu Ha] Hr Hp Hq].
    unfold K.handle_data, K.handle_data_try. rewrite Hr.
    destruct (is_complete (F.h_request fs)) eqn:Hcomp; cbn [negb].
    - (* later data *)
      assert (Hst : state (F.h_request fs) = COMPLETE) by (apply N.eqb_eq; exact Hcomp).
      destruct (F.h_plugin fs) eqn:Hpl.
      + rewrite (FF.handle_data_later fc true fs data Hst Hpl).
        pose proof (ocd_sim fs ks data Hs Hpl) as R.
        destruct (F.on_client_data fc fs data) as [[|] fs'|e fs'];
          destruct (K.plugin_on_client_data c ks data) as [ks' [[]|e']]; cbn [unit_rel] in R; try contradiction.
        * exact R.
        * apply (finish_sim (F.Raised e fs') (ks', Err e')). exact R.
      + unfold F.handle_data. rewrite Hst, Hpl. cbn [N.eqb Pos.eqb negb COMPLETE].
        unfold K.plugin_on_client_data. rewrite Hp. exact Hs.
    - (* the first request *)
      assert (Hst : state (F.h_request fs) <> COMPLETE) by (apply N.eqb_neq; exact Hcomp).
      rewrite (FF.handle_data_first fc true fs data Hst).
      pose proof (pfr_sim fs ks data Hs) as R.
      destruct (F.parse_first_request fc true fs data) as [[|] fs1|e fs1];
        destruct (K.parse_first_request c ks data) as [ks1 [[|]|e']]; cbn [res_rel] in R;
        try contradiction; try (destruct R as [R0 _]; discriminate R0).
      + apply (finish_sim (F.Done true fs1) (ks1, Ok true)). exact R.
      + (* request not rejected: hand the remainder over *)
        destruct R as [_ Hs1]. pose proof Hs1 as [[Hc1 Hu1 Ha1] Hr1 Hp1 Hq1].
        cbn [F.first_remainder]. rewrite Hr1, Hp1.
        destruct (buffer (F.h_request fs1)) as [[|b0 bt]|] eqn:Hbuf.
        * destruct (F.h_plugin fs1); exact Hs1.
        * destruct (F.h_plugin fs1) eqn:Hpl1; [|rewrite andb_false_r; exact Hs1].
          rewrite andb_true_r.
          destruct (is_complete (F.h_request fs1)); [|exact Hs1].
          assert (Hs2 : sim (F.set_request fs1 (F.clear_buffer (F.h_request fs1)))
                            (K.set_request (K.clear_buffer (F.h_request fs1)) ks1)).
          { split; [split|..]; try assumption; try reflexivity.
            change (K.plugin ks1 = if F.h_plugin fs1 then K.PProxy else K.PNone). rewrite Hpl1. exact Hp1. }
          pose proof (ocd_sim _ _ (b0 :: bt) Hs2 Hpl1) as R2.
          destruct (F.on_client_data fc _ (b0 :: bt)) as [[|] fs'|e fs'];
            destruct (K.plugin_on_client_data c _ (b0 :: bt)) as [ks' [[]|e']]; cbn [unit_rel] in R2; try contradiction.
          -- exact R2.
          -- apply (finish_sim (F.Raised e fs') (ks', Err e')). exact R2.
        * destruct (F.h_plugin fs1); exact Hs1.
      + apply (finish_sim (F.Raised e fs1) (ks1, Err e')). exact R.
  Qed.

  (* ---------------------------------------------------------------- every list of segments *)
  Lemma run_not_alive evs : forall ks, K.stat ks <> K.Alive -> K.run c ks evs = ks.
  Proof.
    unfold K.run. induction evs as [|ev evs IH]; intros ks H; [reflexivity|].
    cbn [fold_left]. assert (E : K.step c ks ev = ks) by (unfold K.step; destruct (K.stat ks); congruence).
    rewrite E. apply IH. exact H.
  Qed.

  Definition nonempty_piece (x : bytes) : Prop := x <> [].

  (* MAIN LINK of this file.  The client's bytes arrive as any list of non-empty segments (an empty
     recv() result is EOF in Conversation's event alphabet): Forward.feed and Conversation.run on the
     corresponding EClient events stay related. *)
  Theorem feed_sim : forall pieces fs ks, sim fs ks -> Forall nonempty_piece pieces ->
    final_rel (F.feed fc true fs pieces) (K.run c ks (map K.EClient pieces)).
  Proof.
    induction pieces as [|x t IH]; intros fs ks Hs Hne.
    - exact Hs.
    - inversion Hne as [|? ? Hx Ht]; subst.
      cbn [F.feed map]. unfold K.run. cbn [fold_left]. fold (K.run c (K.step c ks (K.EClient x)) (map K.EClient t)).
      assert (Estep : K.step c ks (K.EClient x) = K.handle_data c ks x).
      { unfold K.step. rewrite (os_alive _ _ (s_obs _ _ Hs)). destruct x; [contradiction Hx; reflexivity|reflexivity]. }
      rewrite Estep. pose proof (handle_data_sim fs ks x Hs) as R.
      destruct (F.handle_data fc true fs x) as [[|] fs'|e fs']; cbn [final_rel] in R.
      + rewrite run_not_alive; [exact R|]. destruct R as [R _]. rewrite R. discriminate.
      + apply IH; assumption.
      + rewrite run_not_alive; [exact R|]. destruct R as (_ & R & _). rewrite R. discriminate.
  Qed.

  Lemma init_sim ds : sim F.init_state (K.init ds).
  Proof. split; [split|..]; try reflexivity; try exact I. Qed.

  (* in terms of Forward's own observable: whatever C02 says about [forward cfg segs] is a statement
     about the pieces queued on the (single) upstream connection of the conversation model *)
  Corollary forward_is_conversation_upstream ds segs q :
    Forall nonempty_piece segs -> F.forward fc segs = Some q ->
    let ks := K.run c (K.init ds) (map K.EClient segs) in
    K.stat ks = K.Alive /\
    match K.upstream ks with
    | Some k => exists u, nth_error (K.conns ks) k = Some u /\ K.up_queued u = q
    | None => q = []
    end.
  Proof.
    intros Hne Hf. cbv zeta. unfold F.forward in Hf.
    pose proof (feed_sim segs _ _ (init_sim ds) Hne) as R.
    destruct (F.feed fc true F.init_state segs) as [[|] fs'|e fs']; try discriminate.
    inversion Hf; subst q. cbn [final_rel] in R. destruct R as [[Hc Hu Ha] _ _ _].
    split; [exact Ha|]. unfold up_rel in Hu. unfold F.upstream_queue.
    destruct (F.h_upstream fs') as [up|]; destruct (K.upstream _) as [k|]; try contradiction; [|reflexivity].
    destruct Hu as (u & Hn & Hq & _). eauto.
  Qed.
End Sim.

(* ================================================================== what does NOT coincide *)
(* After an exception escapes, the two models leave different (unobservable) parser states behind.
   Witness: a request line with an EMPTY method, " http://h/ HTTP/1.1": HttpParser.build asserts
   self.method -> AssertionError escapes handle_events.  Forward keeps the request object as parsed;
   Conversation records it with the Via header already added (the Python mutates the request in place
   before build() raises, so Conversation is the faithful one).  Nothing observable depends on it:
   the connection is gone. *)
Definition agent0 : bytes := bs "proxy.py v2.4".
Definition kc0 : K.cfg :=
  K.mkCfg (F.via_entry agent0) [] (bs "ACK") (bs "BAD") (bs "404") true false false false (fun _ _ => false) [] [].
Definition empty_method_req : bytes := bs " http://h/ HTTP/1.1" ++ CRLF ++ CRLF.

Lemma post_exception_request_differ :
  match F.handle_data (fc agent0 kc0) true F.init_state empty_method_req with
  | F.Raised AssertionError fs' =>
      has_header (F.h_request fs') (bs "via") = false /\
      has_header (K.request (K.handle_data kc0 (K.init []) empty_method_req)) (bs "via") = true /\
      K.stat (K.handle_data kc0 (K.init []) empty_method_req) = K.Raised AssertionError
  | _ => False
  end.
Proof. vm_compute. repeat split; reflexivity. Qed.

(* non-vacuity: a pipelined pair of requests in one segment plus a third one cut in two *)
Definition seg1 : bytes :=
  bs "GET http://h/a HTTP/1.1" ++ CRLF ++ bs "Host: h" ++ CRLF ++ CRLF ++
  bs "GET http://h/b HTTP/1.1" ++ CRLF ++ bs "Host: h" ++ CRLF ++ CRLF ++ bs "GET http://h/c HT".
Definition seg2 : bytes := bs "TP/1.1" ++ CRLF ++ bs "Host: h" ++ CRLF ++ CRLF.
Example feed_sim_example :
  match F.forward (fc agent0 kc0) [seg1; seg2] with
  | Some q => length q = 3%nat /\
      match K.conns (K.run kc0 (K.init []) [K.EClient seg1; K.EClient seg2]) with
      | [u] => K.up_queued u = q /\ K.up_host u = bs "h" /\ K.up_port u = 80%Z
      | _ => False
      end
  | None => False
  end.
Proof. vm_compute. repeat split; reflexivity. Qed.

(* ================================================================== connect_upstream: C04 vs C14 *)
(* HttpProxyPlugin.connect_upstream is modelled in Http/Upstream.v (C14: down to the socket-layer call) and in
   Net/Conversation.v (C04: the connect log).  Same exceptions on the same requests; on success the entry C04
   appends to its connect log is the address C14 hands to TcpServerConnection (whose connect() then strips
   brackets and picks the address family). *)
Theorem connect_upstream_agree ipv (ks : K.hstate) :
  match connect_upstream ipv (host (K.request ks)) (Parser.port (K.request ks)) with
  | Err e => K.connect_upstream ks = (ks, Err e)
  | Ok call =>
      exists h z, call = tcp_server_connect ipv (h, z) None /\
        K.connect_upstream ks =
        (K.set_upstream (Some (length (K.conns ks))) (K.set_conns (K.conns ks ++ [K.mkUp h z [] 0 false]) ks), Ok tt)
  end.
Proof.
  unfold connect_upstream, K.connect_upstream.
  destruct (host (K.request ks)) as [[|hx ht]|]; destruct (Parser.port (K.request ks)) as [z|];
    cbn [length Nat.eqb negb andb]; try reflexivity.
  destruct (z =? 0)%Z; cbn [negb andb]; [reflexivity|].
  destruct ((0 <? z)%Z && (z <=? 65535)%Z); cbn [negb]; [|reflexivity].
  unfold text_. destruct (utf8_valid (hx :: ht)); cbn [bind]; [|reflexivity].
  exists (hx :: ht), z. split; reflexivity.
Qed.
