(* Model coherence, part 2: HttpProxyPlugin._queue_request_for_upstream and the first-request
   path of HttpProxyPlugin.on_request_complete are modelled
     - in Net/Forward.v       (C02: over the real parser record Http/Parser.v),
     - in Net/Conversation.v  (C04: rebuild_for_upstream, same parser record),
     - in Net/PluginChain.v + Net/Auth.v (C08/C09: over the ABSTRACT request record Auth.request,
       with arbitrary user plugins and one chronological log).
   This file
     * re-exports agent-C04's ConversationLink.rebuild_agrees (Forward = Conversation),
     * defines the abstraction [areq_of : Parser.parser -> Auth.request] and proves that
       Auth.build, PluginChain.scrub / queue_request_for_upstream / on_request_complete (user plugin
       list empty, AuthPlugin loaded iff --basic-auth) compute, on the abstraction of a parser
       state, exactly what Forward computes on the parser state: same bytes queued for the
       upstream, same packets queued for the client, same teardown / escaping exception,
     * history: this link first held only for ports <= 65535 — PluginChain.connect_upstream had no
       port-range check (the Python has one since fix f918c36).  That disagreement was found here
       (witness `GET http://h:65536/`), reported, and REPAIRED in Net/PluginChain.v / Net/Auth.v
       (rq_port is now the Python int, a Z); the link below is unconditional in the port and the former
       witness is kept as a regression example (chain_first_request_port_regression). *)
From PM Require Import Lib.Bytes Lib.BytesFacts Lib.PyStr Http.Url Http.Chunk Http.Parser Http.Builders Http.Upstream.
From PM Require Net.Auth Net.PluginChain Net.Forward Net.ForwardFacts Net.Conversation Net.ConversationLink
  Net.Responses Links.Builders.
From Coq Require Import ZArith Lia.

Module A := PM.Net.Auth.
Module C := PM.Net.PluginChain.
Module F := PM.Net.Forward.
Module FF := PM.Net.ForwardFacts.
Module K := PM.Net.Conversation.
Module R := PM.Net.Responses.
Module LB := PM.Links.Builders.

(* ================================================================== Forward = Conversation (re-export) *)
Theorem forward_conversation_rebuild_agree agent c t p :
  K.via_value c = F.via_entry agent ->
  F.queue_request_for_upstream (ConversationLink.fcfg_of agent c) t p =
  match K.rebuild_for_upstream c t p with (r2, Ok w) => Ok (r2, w) | (_, Err e) => Err e end.
Proof. exact (ConversationLink.rebuild_agrees agent c t p). Qed.

(* ================================================================== the abstraction *)
(* what Net/Auth.v's request record keeps of an HttpParser object; rq_body is what
   _get_body_or_chunks() returns (Forward.wire_body, total because DEFAULT_BUFFER_SIZE > 0);
   rq_buffer is HttpParser.buffer (None -> b'') *)
Definition areq_of (p : parser) : A.request :=
  A.mkRequest (or_empty (method p)) (host p) (port p) (path p) (or_empty (version p))
              (F.unopt (headers p)) (F.wire_body p) (is_https_tunnel p)
              (match buffer p with Some b => b | None => [] end).

(* [ff] = PluginChain's cf_final_flush (an input of shutdown() only; nothing linked here depends on it) *)
Definition ccfg_of (ff : bool) (fc : F.fcfg) : C.config := C.mkConfig (F.cf_agent fc) (F.cf_disable fc) ff.

Lemma areq_of_same_rest p q : FF.same_rest p q ->
  areq_of q = A.set_headers (areq_of p) (F.unopt (headers q)).
Proof.
  intros (Hty & Hst & Hm & Hv & Hpa & Hh & Hpo & Hb & Hc & Ht & Hbuf).
  unfold areq_of, A.set_headers, F.wire_body.
  cbn [A.rq_method A.rq_host A.rq_port A.rq_path A.rq_version A.rq_body A.rq_tunnel A.rq_buffer].
  rewrite Hm, Hv, Hpa, Hh, Hpo, Hb, Hc, Ht, Hbuf. reflexivity.
Qed.

Lemma dict_del_absent {V} k (d : dict V) : dict_has k d = false -> dict_del k d = d.
Proof.
  unfold dict_has. induction d as [|[k' v] d IH]; [reflexivity|].
  cbn [dict_get dict_del]. destruct (bytes_eqb k k'); [discriminate|].
  intros H. rewrite (IH H). reflexivity.
Qed.

Lemma unopt_del_header p k : F.unopt (headers (del_header p k)) = dict_del (lower k) (F.unopt (headers p)).
Proof.
  unfold del_header. destruct (headers p) as [[|e d]|] eqn:E; try (rewrite E; reflexivity).
  destruct (dict_has (lower k) (e :: d)) eqn:Hd.
  - reflexivity.
  - rewrite E. cbn [F.unopt]. symmetry. apply dict_del_absent. exact Hd.
Qed.

Lemma areq_of_del_header p k :
  areq_of (del_header p k) = A.set_headers (areq_of p) (A.del_header k (A.rq_headers (areq_of p))).
Proof. rewrite (areq_of_same_rest p _ (FF.same_rest_del p k)), unopt_del_header. reflexivity. Qed.

Lemma areq_of_add_header p k v :
  areq_of (add_header p k v) = A.set_headers (areq_of p) (A.add_header k v (A.rq_headers (areq_of p))).
Proof. rewrite (areq_of_same_rest p _ (FF.same_rest_add p k v)). reflexivity. Qed.

Lemma set_headers_set_headers r h1 h2 : A.set_headers (A.set_headers r h1) h2 = A.set_headers r h2.
Proof. reflexivity. Qed.
Lemma rq_headers_set_headers r h : A.rq_headers (A.set_headers r h) = h.
Proof. reflexivity. Qed.

Lemma areq_of_del_headers keys : forall p,
  areq_of (F.del_headers p keys) = A.set_headers (areq_of p) (A.del_headers keys (A.rq_headers (areq_of p))).
Proof.
  unfold F.del_headers, A.del_headers.
  induction keys as [|k keys IH]; intros p.
  - cbn [fold_left]. destruct p; reflexivity.
  - cbn [fold_left]. rewrite IH, areq_of_del_header, set_headers_set_headers, rq_headers_set_headers. reflexivity.
Qed.

Lemma areq_of_add_headers hs : forall p,
  areq_of (F.add_headers p hs) = A.set_headers (areq_of p) (A.add_headers hs (A.rq_headers (areq_of p))).
Proof.
  unfold F.add_headers, A.add_headers.
  induction hs as [|[k v] hs IH]; intros p.
  - cbn [fold_left]. destruct p; reflexivity.
  - cbn [fold_left fst snd]. rewrite IH, areq_of_add_header, set_headers_set_headers, rq_headers_set_headers. reflexivity.
Qed.

Lemma is_request_del_headers p keys : ty (F.del_headers p keys) = ty p.
Proof.
  unfold F.del_headers. revert p. induction keys as [|k keys IH]; intros p; [reflexivity|].
  cbn [fold_left]. rewrite IH. destruct (FF.same_rest_del p (lower k)) as (H & _). exact H.
Qed.
Lemma is_request_add_headers p hs : ty (F.add_headers p hs) = ty p.
Proof.
  unfold F.add_headers. revert p. induction hs as [|kv hs IH]; intros p; [reflexivity|].
  cbn [fold_left]. rewrite IH. reflexivity.
Qed.

(* ================================================================== HttpParser.build *)
Theorem auth_build_is_Builders_build ua disable p :
  is_request (ty p) = true ->
  A.build disable (areq_of p) = build ua p disable false None.
Proof.
  intros Hty. unfold A.build, build, areq_of.
  cbn [A.rq_method A.rq_version A.rq_path A.rq_headers A.rq_body].
  rewrite FF.get_body_or_chunks_wire, Hty, andb_true_r. cbn [bind].
  replace (A.is_empty (or_empty (method p)) || A.is_empty (or_empty (version p)))
    with (negb (truthy (method p) && truthy (version p)))
    by (destruct (method p) as [[|]|]; destruct (version p) as [[|]|]; reflexivity).
  destruct (negb (truthy (method p) && truthy (version p))); [reflexivity|].
  rewrite (LB.auth_build_http_request_eq ua), LB.auth_build_headers_eq.
  replace (match A.nonempty (path p) with Some p0 => p0 | None => bs "/" end)
    with (if truthy (path p) then or_empty (path p) else [SLASH])
    by (destruct (path p) as [[|]|]; reflexivity).
  destruct (headers p) as [[|e d]|]; reflexivity.
Qed.

(* ================================================================== scrub = del_headers/add_headers(Via) *)
Lemma via_value_closed fc r1 : F.cf_via_append fc = true ->
  F.via_value fc r1 =
  Ok (match dict_get (bs "via") (F.unopt (headers r1)) with
      | Some (_, v) => v ++ bs ", " ++ bs "1.1 " ++ F.cf_agent fc
      | None => bs "1.1 " ++ F.cf_agent fc
      end).
Proof.
  intros Hv. unfold F.via_value, has_header, header. rewrite Hv. cbn [andb].
  change (lower F.L_VIA) with (bs "via").
  destruct (headers r1) as [h|]; [|reflexivity]. cbn [F.unopt]. unfold dict_has.
  destruct (dict_get (bs "via") h) as [[o v]|]; reflexivity.
Qed.

(* the request object after the header surgery of _queue_request_for_upstream *)
Definition fwd_scrubbed (fc : F.fcfg) (tunnel : bool) (p : parser) : parser :=
  let r1 := F.del_headers p [F.PROXY_AUTHORIZATION; F.PROXY_CONNECTION] in
  if tunnel then r1
  else F.add_headers r1 [(F.H_VIA,
         match dict_get (bs "via") (F.unopt (headers r1)) with
         | Some (_, v) => v ++ bs ", " ++ bs "1.1 " ++ F.cf_agent fc
         | None => bs "1.1 " ++ F.cf_agent fc
         end)].

Lemma forward_queue_unfold fc tunnel p : F.cf_via_append fc = true ->
  F.queue_request_for_upstream fc tunnel p =
  do w <- build (F.cf_agent fc) (fwd_scrubbed fc tunnel p) (F.cf_disable fc) false None;
  Ok (fwd_scrubbed fc tunnel p, w).
Proof.
  intros Hv. unfold F.queue_request_for_upstream, fwd_scrubbed. cbv zeta.
  destruct tunnel; cbn [negb bind]; [reflexivity|].
  rewrite (via_value_closed fc _ Hv). reflexivity.
Qed.

Theorem chain_scrub_is_forward ff fc tunnel p :
  C.scrub (ccfg_of ff fc) tunnel (areq_of p) = areq_of (fwd_scrubbed fc tunnel p).
Proof.
  unfold C.scrub, fwd_scrubbed. cbv zeta.
  destruct tunnel.
  - rewrite areq_of_del_headers. reflexivity.
  - rewrite areq_of_add_headers, areq_of_del_headers, set_headers_set_headers, rq_headers_set_headers.
    cbn [C.cf_agent ccfg_of].
    replace (F.unopt (headers (F.del_headers p [F.PROXY_AUTHORIZATION; F.PROXY_CONNECTION])))
      with (A.del_headers [A.PROXY_AUTHORIZATION; A.PROXY_CONNECTION] (A.rq_headers (areq_of p))).
    + reflexivity.
    + change (F.unopt (headers ?q)) with (A.rq_headers (areq_of q)).
      rewrite areq_of_del_headers. reflexivity.
Qed.

Lemma fwd_scrubbed_ty fc tunnel p : ty (fwd_scrubbed fc tunnel p) = ty p.
Proof.
  unfold fwd_scrubbed. cbv zeta. destruct tunnel.
  - apply is_request_del_headers.
  - rewrite is_request_add_headers. apply is_request_del_headers.
Qed.

(* _queue_request_for_upstream: the chain model on the abstraction = Forward on the parser *)
Theorem chain_queue_is_forward ff fc tunnel p l :
  F.cf_via_append fc = true -> is_request (ty p) = true ->
  C.queue_request_for_upstream (ccfg_of ff fc) tunnel (areq_of p) l =
  match F.queue_request_for_upstream fc tunnel p with
  | Ok (r2, w) => (l ++ [C.QueueUpstream C.QRequest w], areq_of r2, None)
  | Err e => (l, areq_of (fwd_scrubbed fc tunnel p), Some (C.FRaise e))
  end.
Proof.
  intros Hv Hty. unfold C.queue_request_for_upstream. cbv zeta.
  rewrite chain_scrub_is_forward, (forward_queue_unfold fc tunnel p Hv).
  cbn [C.cf_disable_headers ccfg_of].
  rewrite (auth_build_is_Builders_build (F.cf_agent fc)) by (rewrite fwd_scrubbed_ty; exact Hty).
  destruct (build (F.cf_agent fc) (fwd_scrubbed fc tunnel p) (F.cf_disable fc) false None); reflexivity.
Qed.

(* ================================================================== on_request_complete *)
(* observables of the chain model's log *)
Fixpoint up_bytes (l : C.log) : list bytes :=
  match l with
  | C.QueueUpstream _ b :: t => b :: up_bytes t
  | _ :: t => up_bytes t
  | [] => []
  end.
Fixpoint cl_bytes (l : C.log) : list bytes :=
  match l with
  | C.QueueClient b :: t => b :: cl_bytes t
  | _ :: t => cl_bytes t
  | [] => []
  end.
Fixpoint connects (l : C.log) : list (bytes * N) :=
  match l with
  | C.Connect h p _ :: t => (h, p) :: connects t
  | _ :: t => connects t
  | [] => []
  end.
Definition is_teardown (e : C.event) : bool := match e with C.Teardown => true | _ => false end.
Definition is_esc (e : C.event) : bool := match e with C.Escaped _ => true | _ => false end.
Definition ends_torn (l : C.log) : bool := existsb is_teardown l.
Definition escaped_code (l : C.log) : option N :=
  match filter is_esc l with
  | C.Escaped c :: _ => Some c
  | _ => None
  end.

Lemma ends_torn_app a b : ends_torn (a ++ b) = ends_torn a || ends_torn b.
Proof. apply existsb_app. Qed.
Lemma escaped_code_app a b : escaped_code a = None -> escaped_code (a ++ b) = escaped_code b.
Proof.
  intros H. assert (E : filter is_esc a = []).
  { destruct (filter is_esc a) as [|e t] eqn:E; [reflexivity|]. exfalso.
    assert (Hin : In e (filter is_esc a)) by (rewrite E; left; reflexivity).
    apply filter_In in Hin. destruct Hin as [_ He].
    unfold escaped_code in H. rewrite E in H. destruct e; discriminate. }
  unfold escaped_code. rewrite filter_app, E. reflexivity.
Qed.

Lemma up_bytes_app a b : up_bytes (a ++ b) = up_bytes a ++ up_bytes b.
Proof. induction a as [|[] a IH]; cbn [app up_bytes]; rewrite ?IH; reflexivity. Qed.
Lemma cl_bytes_app a b : cl_bytes (a ++ b) = cl_bytes a ++ cl_bytes b.
Proof. induction a as [|[] a IH]; cbn [app cl_bytes]; rewrite ?IH; reflexivity. Qed.

(* the packets Forward names, as bytes (Net/Responses.v = Net/Auth.v, Links/Builders.v) *)
Definition pk (agent : bytes) (c : F.cpkt) : bytes :=
  match c with
  | F.BadRequest => R.BAD_REQUEST_RESPONSE_PKT agent
  | F.TunnelEstablished => R.PROXY_TUNNEL_ESTABLISHED_RESPONSE_PKT
  | F.BadGateway => R.BAD_GATEWAY_RESPONSE_PKT agent
  | F.AuthFailed => R.PROXY_AUTH_FAILED_RESPONSE_PKT agent
  end.

(* the HttpProxyBasePlugin list: the AuthPlugin iff --basic-auth was given, no user plugins *)
Definition ps_of (fc : F.fcfg) : list C.plugin :=
  if A.truthy (F.cf_auth_code fc) then [C.auth_plugin (F.cf_agent fc) (F.cf_auth_code fc)] else [].

(* the state of the Forward model when on_request_complete is entered *)
Definition plugin_state0 (r : parser) : F.hstate := F.set_plugin (F.set_request F.init_state r).

Definition st_of (o : F.outcome) : F.hstate := match o with F.Done _ st => st | F.Raised _ st => st end.

(* the first step of a connection in the chain model: on_request_complete + what handle_data makes of a failure *)
Definition chain_first (ff : bool) (fc : F.fcfg) (r : parser) (ok : bool) : C.log :=
  fst (C.run_steps (ccfg_of ff fc) (ps_of fc) None false [C.SFirst (areq_of r) ok] []).

Record first_agree (fc : F.fcfg) (l : C.log) (o : F.outcome) : Prop := {
  fa_upstream : up_bytes l = F.upstream_queue (st_of o);
  fa_client : cl_bytes l = map (pk (F.cf_agent fc)) (F.h_client (st_of o));
  fa_teardown : ends_torn l = match o with F.Done b _ => b | _ => false end;
  fa_escaped : escaped_code l = match o with F.Raised e _ => Some (exn_code e) | _ => None end }.

Lemma pkt_nonempty_bad_gateway agent : exists x t, A.BAD_GATEWAY_RESPONSE_PKT agent = x :: t.
Proof. eexists. eexists. vm_compute. reflexivity. Qed.
Lemma pkt_nonempty_auth_failed agent : exists x t, A.PROXY_AUTH_FAILED_RESPONSE_PKT agent = x :: t.
Proof. eexists. eexists. vm_compute. reflexivity. Qed.

Record quiet (l : C.log) : Prop := {
  q_up : up_bytes l = []; q_cl : cl_bytes l = []; q_torn : ends_torn l = false; q_esc : escaped_code l = None }.

Lemma quiet_nil : quiet [].
Proof. split; reflexivity. Qed.
Lemma quiet_call l p h a : quiet l -> quiet (l ++ [C.Call p h a]).
Proof.
  intros [U Cc T E]. split.
  - rewrite up_bytes_app, U. reflexivity.
  - rewrite cl_bytes_app, Cc. reflexivity.
  - rewrite ends_torn_app, T. reflexivity.
  - rewrite (escaped_code_app _ _ E). reflexivity.
Qed.
Lemma quiet_connect l h p s : quiet l -> quiet (l ++ [C.Connect h p s]).
Proof.
  intros [U Cc T E]. split.
  - rewrite up_bytes_app, U. reflexivity.
  - rewrite cl_bytes_app, Cc. reflexivity.
  - rewrite ends_torn_app, T. reflexivity.
  - rewrite (escaped_code_app _ _ E). reflexivity.
Qed.

(* a quiet log followed by the closing events: the observables are those of the closing events *)
Lemma first_agree_quiet fc l tail o : quiet l ->
  first_agree fc tail o -> first_agree fc (l ++ tail) o.
Proof.
  intros [U Cc T E] [A1 A2 A3 A4]. split.
  - rewrite up_bytes_app, U. exact A1.
  - rewrite cl_bytes_app, Cc. exact A2.
  - rewrite ends_torn_app, T. exact A3.
  - rewrite (escaped_code_app _ _ E). exact A4.
Qed.

(* MAIN LINK of this file: the first request of a connection.  For every parser state [r] of request
   type, every port value, every configuration and connect outcome, the chain
   model (C08/C09) run on the abstraction of [r] and the Forward model (C02) run on [r] queue the same
   bytes for the upstream, the same packets for the client, and agree on teardown / escaping
   exception. *)
Theorem chain_first_request_is_forward ff fc r ok :
  F.cf_via_append fc = true -> is_request (ty r) = true ->
  first_agree fc (chain_first ff fc r ok) (FF.catch (F.on_request_complete fc ok (plugin_state0 r))).
Proof.
  intros Hv Hty.
  unfold chain_first. cbn [C.run_steps]. unfold C.on_request_complete, F.on_request_complete.
  (* --- before_upstream_connection chain --- *)
  assert (Hbuc :
    (let '(l1, e1) := C.chain C.BUC C.ARequest C.before_upstream_connection (ps_of fc) (areq_of r) [] in
     quiet l1 /\
     match F.before_upstream_connection fc (F.h_request (plugin_state0 r)) with
     | Ok r' => r' = r /\ C.norm_end e1 = C.Done (areq_of r)
     | Err e => e = F.EXC_AUTH /\
                C.norm_end e1 = C.Rejected (areq_of r) (Some (A.PROXY_AUTH_FAILED_RESPONSE_PKT (F.cf_agent fc)))
     end)).
  { unfold ps_of, F.before_upstream_connection. change (F.h_request (plugin_state0 r)) with r.
    destruct (F.cf_auth_code fc) as [[|c0 ct]|] eqn:Hc; cbn [A.truthy C.chain];
      try (split; [exact quiet_nil|split; reflexivity]).
    cbn [C.auth_plugin C.before_upstream_connection C.pid]. unfold A.AuthPlugin_before_upstream_connection.
    cbn [A.truthy A.body_or_empty]. change (A.rq_headers (areq_of r)) with (F.unopt (headers r)).
    destruct (A.auth_ok (c0 :: ct) (F.unopt (headers r))); cbn [C.chain C.norm_end];
      (split; [apply (quiet_call []); exact quiet_nil|split; reflexivity]). }
  destruct (C.chain C.BUC C.ARequest C.before_upstream_connection (ps_of fc) (areq_of r) []) as [l1 e1].
  destruct Hbuc as (Q1 & Hbuc).
  destruct (F.before_upstream_connection fc (F.h_request (plugin_state0 r))) as [r'|e].
  2:{ destruct Hbuc as (-> & ->).
      destruct (pkt_nonempty_auth_failed (F.cf_agent fc)) as (x & t & Hx).
      cbn [C.escapes fst C.run_steps C.handle_data_end FF.catch F.EXC_AUTH F.exc_response N.eqb Pos.eqb].
      rewrite Hx. cbn [C.handle_data_end fst].
      apply first_agree_quiet; [exact Q1|]. split; cbn [st_of]; try reflexivity.
      cbn [cl_bytes F.queue_client F.h_client plugin_state0 F.set_plugin F.set_request F.init_state map pk app].
      rewrite <- Hx. destruct (LB.auth_canned_packets_shared (F.cf_agent fc)) as (E & _). rewrite E. reflexivity. }
  destruct Hbuc as (-> & ->).
  (* --- connect_upstream --- *)
  unfold C.connect_upstream, connect_upstream.
  change (A.rq_host (areq_of r)) with (host r). change (A.rq_port (areq_of r)) with (port r).
  destruct (host r) as [[|hx ht]|] eqn:Hh; destruct (port r) as [z|] eqn:Hz;
    cbn [A.nonempty length Nat.eqb negb andb];
    try (cbn [fst C.escapes C.handle_data_end C.run_steps FF.catch F.exc_response N.eqb Pos.eqb];
         apply first_agree_quiet; [exact Q1|]; split; reflexivity).
  destruct (z =? 0)%Z eqn:Hz0.
  { cbn [negb andb fst C.escapes C.handle_data_end C.run_steps FF.catch F.exc_response N.eqb Pos.eqb].
    apply first_agree_quiet; [exact Q1|]; split; reflexivity. }
  cbn [negb andb].
  destruct ((0 <? z)%Z && (z <=? 65535)%Z) eqn:Hrange; cbn [negb].
  2:{ cbn [fst C.escapes C.handle_data_end C.run_steps FF.catch F.exc_response N.eqb Pos.eqb].
      apply first_agree_quiet; [exact Q1|]; split; reflexivity. }
  unfold text_. destruct (utf8_valid (hx :: ht)) eqn:Hutf; cbn [negb bind].
  2:{ cbn [fst C.escapes C.is_oserror negb C.handle_data_end C.run_steps FF.catch].
      apply first_agree_quiet; [exact Q1|]; split; reflexivity. }
  (* --- resolve_dns chain: the AuthPlugin inherits the default --- *)
  assert (Hdns : exists l2, C.resolve_chain (ps_of fc) (hx :: ht) (Z.to_N z) l1 = (l2, Some (None, None)) /\ quiet l2).
  { unfold ps_of. destruct (A.truthy (F.cf_auth_code fc)); cbn [C.resolve_chain C.auth_plugin C.resolve_dns A.nonempty C.pid].
    - eexists. split; [reflexivity|]. apply quiet_call. exact Q1.
    - exists l1. split; [reflexivity|exact Q1]. }
  destruct Hdns as (l2 & -> & Q2). cbn [A.nonempty].
  destruct ok; cbn [negb].
  2:{ destruct (pkt_nonempty_bad_gateway (F.cf_agent fc)) as (x & t & Hx).
      cbn [fst C.escapes C.run_steps FF.catch F.EXC_CONNECT F.exc_response N.eqb Pos.eqb]. unfold C.handle_data_end.
      change (C.cf_agent (ccfg_of ff fc)) with (F.cf_agent fc). rewrite Hx. cbn [fst].
      apply first_agree_quiet; [apply quiet_connect; exact Q2|]. split; cbn [st_of]; try reflexivity.
      cbn [cl_bytes F.queue_client F.h_client plugin_state0 F.set_plugin F.set_request F.init_state map pk app].
      rewrite <- Hx. destruct (LB.auth_canned_packets_shared (F.cf_agent fc)) as (_ & E & _). rewrite E. reflexivity. }
  (* --- handle_client_request chain: defaults --- *)
  unfold C.after_connect.
  assert (Hhcr : forall l, quiet l -> exists l3,
            C.chain C.HCR C.ARequest C.handle_client_request (ps_of fc) (areq_of r) l = (l3, C.Done (areq_of r)) /\ quiet l3).
  { intros l Ql. unfold ps_of. destruct (A.truthy (F.cf_auth_code fc)); cbn [C.chain C.auth_plugin C.handle_client_request C.pid].
    - eexists. split; [reflexivity|]. apply quiet_call. exact Ql.
    - exists l. split; [reflexivity|exact Ql]. }
  destruct (Hhcr (l2 ++ [C.Connect (hx :: ht) (Z.to_N z) None]) (quiet_connect _ _ _ _ Q2)) as (l3 & -> & Q3).
  cbn [C.norm_end].
  change (A.rq_tunnel (areq_of r)) with (is_https_tunnel r).
  destruct (is_https_tunnel r) eqn:Htun.
  - cbn [fst FF.catch]. apply first_agree_quiet; [exact Q3|]. split; cbn [st_of]; try reflexivity.
    all: cbn [cl_bytes F.queue_client F.h_client plugin_state0 F.set_plugin F.set_upstream F.set_request F.init_state map pk app];
      destruct (LB.auth_canned_packets_shared (F.cf_agent fc)) as (_ & _ & E); rewrite E; reflexivity.
  - rewrite (chain_queue_is_forward ff fc false r l3 Hv Hty).
    destruct (F.queue_request_for_upstream fc false r) as [[r2 w]|e] eqn:Hq.
    + cbn [fst FF.catch]. apply first_agree_quiet; [exact Q3|]. split; reflexivity.
    + (* only build() can fail: AssertionError escapes in both models *)
      rewrite (forward_queue_unfold fc false r Hv) in Hq.
      assert (He : e = AssertionError).
      { unfold build in Hq. destruct (negb _) in Hq; [cbn [bind] in Hq; congruence|].
        rewrite FF.get_body_or_chunks_wire in Hq. cbn [bind] in Hq. discriminate. }
      subst e.
      cbn [fst C.escapes C.is_oserror negb C.handle_data_end C.run_steps FF.catch].
      rewrite <- (app_nil_r l3) at 1. rewrite <- app_assoc.
      apply first_agree_quiet; [exact Q3|]. split; reflexivity.
Qed.

(* ================================================================== formerly a disagreement: port > 65535 *)
(* `GET http://h:65536/ HTTP/1.1`: the Python (since fix f918c36), Forward, Conversation and Upstream raise
   HttpProtocolException('Invalid port') -> teardown, no connect, nothing forwarded (replayed on /repo through
   harness/sim.py).  The chain model used to connect to ("h", 65536) and forward the request
   (`chain_first_request_port_differ`, proved here against the model as it was); agent-Plugins added the range
   check.  Regression example: on the former witness the two models now agree. *)
Definition fc0 : F.fcfg :=
  {| F.cf_agent := bs "proxy.py v2.4"; F.cf_disable := []; F.cf_auth_code := None;
     F.cf_via_append := true; F.cf_upgrade_complete := true |}.
Definition r_port65536 : parser :=
  match parse (new_parser REQUEST_PARSER) (bs "GET http://h:65536/ HTTP/1.1" ++ CRLF ++ CRLF) with
  | Ok p => p | Err _ => new_parser REQUEST_PARSER end.

Example chain_first_request_port_regression :
  port r_port65536 = Some 65536%Z /\
  connects (chain_first false fc0 r_port65536 true) = [] /\
  up_bytes (chain_first false fc0 r_port65536 true) = [] /\
  ends_torn (chain_first false fc0 r_port65536 true) = true /\
  (exists st, FF.catch (F.on_request_complete fc0 true (plugin_state0 r_port65536)) = F.Done true st /\
              F.upstream_queue st = [] /\ F.h_client st = []).
Proof.
  repeat (split; [vm_compute; reflexivity|]).
  eexists. split; [vm_compute; reflexivity|]. split; reflexivity.
Qed.

(* non-vacuity of the main link: a request in its domain that is forwarded *)
Definition r_ok : parser :=
  match parse (new_parser REQUEST_PARSER)
          (bs "GET http://h:8080/x HTTP/1.1" ++ CRLF ++ bs "Proxy-Connection: keep-alive" ++ CRLF ++ CRLF) with
  | Ok p => p | Err _ => new_parser REQUEST_PARSER end.
Example chain_first_request_example :
  is_request (ty r_ok) = true /\ port r_ok = Some 8080%Z /\
  up_bytes (chain_first false fc0 r_ok true) =
    [bs "GET /x HTTP/1.1" ++ CRLF ++ bs "Via: 1.1 proxy.py v2.4" ++ CRLF ++ CRLF] /\
  connects (chain_first false fc0 r_ok true) = [(bs "h", 8080)].
Proof. repeat split; vm_compute; reflexivity. Qed.

(* ================================================================== later requests of the connection *)
Lemma chain_is_connection_upgrade p : C.is_connection_upgrade (areq_of p) = F.is_connection_upgrade p.
Proof.
  unfold C.is_connection_upgrade, F.is_connection_upgrade, A.has_header, has_header, areq_of.
  cbn [A.rq_version A.rq_headers].
  replace (bytes_eqb (or_empty (version p)) A.HTTP_1_1) with (option_eqb bytes_eqb (version p) (Some HTTP_1_1)).
  - destruct (headers p); reflexivity.
  - destruct (version p) as [v|]; [reflexivity|]. reflexivity.
Qed.

(* the parser's .buffer through the abstraction *)
Lemma areq_of_clear_buffer q : A.set_buffer (areq_of q) [] = areq_of (F.clear_buffer q).
Proof. reflexivity. Qed.
Lemma areq_of_remainder q :
  A.nonempty (Some (A.rq_buffer (areq_of q))) = match buffer q with Some (x :: t) => Some (x :: t) | _ => None end.
Proof. unfold areq_of. cbn [A.rq_buffer]. destruct (buffer q) as [[|x t]|]; reflexivity. Qed.

(* HttpProxyPlugin._on_client_data on a pipelined request that has just become complete
   (PluginChain.run_later: the handle_client_request chain, then _queue_request_for_upstream).  The bytes that
   followed the request travel in the request object's buffer: the remainder handed back is Forward's
   `buffer q''` and the retained upgrade request is Forward's `clear_buffer q''` (Forward.after_pipelined).
   (With USER plugins whose handle_client_request returns a NEW parser object that remainder is lost — a finding of
   agent-Plugins, witness in corpus/C09; outside this link, whose plugin list is [AuthPlugin] or [].) *)
Theorem chain_later_request_is_forward ff fc (st : C.pstate) q (l : C.log) :
  F.cf_via_append fc = true -> is_request (ty q) = true ->
  C.run_later (ccfg_of ff fc) (ps_of fc) st (areq_of q) l =
  let l1 := l ++ map (fun p => C.Call (C.pid p) C.HCR (C.ARequest (areq_of q))) (ps_of fc) in
  match F.queue_request_for_upstream fc (A.rq_tunnel (C.st_request st)) q with
  | Ok (q2, w) =>
      (l1 ++ [C.QueueUpstream C.QRequest w],
       C.Continue (C.mkState (C.st_request st) true
                     (if F.is_connection_upgrade q2 then Some (areq_of (F.clear_buffer q2)) else None)),
       match buffer q2 with Some (x :: t) => Some (x :: t) | _ => None end)
  | Err e =>
      (l1, C.Failed (C.mkState (C.st_request st) true
                       (Some (areq_of (fwd_scrubbed fc (A.rq_tunnel (C.st_request st)) q)))) (C.FRaise e),
       None)
  end.
Proof.
  intros Hv Hty. unfold C.run_later. cbv zeta.
  assert (Hc : C.chain C.HCR C.ARequest C.handle_client_request (ps_of fc) (areq_of q) l =
               (l ++ map (fun p => C.Call (C.pid p) C.HCR (C.ARequest (areq_of q))) (ps_of fc), C.Done (areq_of q))).
  { unfold ps_of. destruct (A.truthy (F.cf_auth_code fc)); cbn [C.chain C.auth_plugin C.handle_client_request C.pid map].
    - reflexivity.
    - rewrite app_nil_r. reflexivity. }
  rewrite Hc. cbn [C.norm_end].
  rewrite (chain_queue_is_forward ff fc _ q _ Hv Hty).
  destruct (F.queue_request_for_upstream fc (A.rq_tunnel (C.st_request st)) q) as [[q2 w]|e].
  - rewrite chain_is_connection_upgrade, areq_of_clear_buffer, areq_of_remainder. reflexivity.
  - reflexivity.
Qed.
