(* Model coherence, part 2 (event loops), file 3: what the event loop does AROUND handle_data once a plugin
   chain has decided to end the exchange, and shutdown().
     - Net/PluginChain.v (C08/C09) has it as [run_steps] (a [draining] flag: client reads stop, upstream data is
       still relayed) + [handle_data_end] + [shutdown], over ONE chronological log;
     - Net/Handler.v (C01/C07/C20) as the flags must_flush_before_shutdown / reads_teared / writes_teared of
       handle_events, and [shutdown] over connection records;
     - Net/FirstRequest.v (C06) routes an OSError raised by a hook through handle_readables' `except socket.error`.
   Links proved here:
     * [chain_relay_is_handler]: while draining after a REJECTION (handle_data returned True, output pending) data
       from the upstream is still relayed to the client — in the chain model (QueueClient entries) and in Handler.v
       (must_flush_before_shutdown = True: read_from_descriptors still runs), for every list of chunks;
     * [chain_shutdown_is_handler]: shutdown() closes the same sockets in both models, the threaded final flush
       first in both;
     * [chain_oserror_is_handler] (formerly the disagreement chain_oserror_drain_differ, repaired in
       Net/PluginChain.v run_steps): an OSError raised by a hook inside handle_data tears the READS
       (reads_teared, not must_flush_before_shutdown): nothing is read or relayed afterwards, in the chain model
       (the history ends with Teardown whatever steps follow), in FirstRequest.v
       ([firstrequest_hook_oserror_tears_reads]) and in Handler.v ([handler_reads_teared_skips_reads]). *)
From PM Require Import Lib.Bytes Lib.BytesFacts Lib.PyStr Http.Url Http.Chunk Http.Parser.
From PM Require Net.Conn Net.ConnFacts Net.Handler Net.Auth Net.PluginChain Net.PluginChainFacts Net.Responses Net.FirstRequest.
From PM Require Links.EventLoopsIntercept.
From Coq Require Import ZArith Lia.

Module Cn := PM.Net.Conn.
Module CF := PM.Net.ConnFacts.
Module H := PM.Net.Handler.
Module A := PM.Net.Auth.
Module P := PM.Net.PluginChain.
Module Q := PM.Net.FirstRequest.
Module LI := PM.Links.EventLoopsIntercept.

Ltac hsimpl :=
  cbn [H.work H.upstream H.must_flush H.writes_teared H.reads_teared H.req_complete H.plugin H.is_tunnel
       H.pipeline_upgrade H.g_cl_queued H.g_up_rcvd H.set_work H.set_upstream H.set_must_flush H.set_writes_teared
       H.set_reads_teared H.set_last_activity H.note_client_io H.note_cl_rcvd H.note_up_rcvd H.set_pipeline_upgrade
       H.client_queue].

(* ================================================================== Handler.v: reads_teared stops ALL reads *)
Lemma wtd_frame c e s :
  let '(s', b) := H.write_to_descriptors c e s in
  H.work s' = H.work s /\ H.reads_teared s' = H.reads_teared s /\ H.g_cl_queued s' = H.g_cl_queued s.
Proof.
  unfold H.write_to_descriptors. destruct (H.plugin s); try (repeat split; reflexivity).
  destruct (H.upstream s) as [u|]; try (repeat split; reflexivity).
  destruct (H.u_w e && Cn.has_buffer u); try (repeat split; reflexivity).
  destruct (Cn.flush (H.max_send c) (H.u_send e) u) as [u' [n| |]]; repeat split; reflexivity.
Qed.

(* once reads_teared is set and the client socket is not writable, a handle_events call neither queues anything
   for the client nor reads from the upstream, whatever descriptors are ready *)
Theorem handler_reads_teared_skips_reads c e s :
  H.reads_teared s = true -> H.c_w e = false ->
  H.work (fst (H.handle_events c e s)) = H.work s /\
  H.g_cl_queued (fst (H.handle_events c e s)) = H.g_cl_queued s.
Proof.
  intros Hrt Hcw. rewrite LI.handle_events_split, (LI.hw_idle c e s Hcw). cbv beta iota.
  unfold LI.he_after_w.
  assert (Hreads : forall s3, H.reads_teared s3 = true ->
            fst (LI.he_reads c e s3) = s3).
  { intros s3 E. unfold LI.he_reads, LI.final. rewrite E. cbv beta iota. rewrite E.
    destruct (negb (Cn.has_buffer (H.work s3))); reflexivity. }
  destruct (H.writes_teared s).
  - cbn [andb]. destruct (negb (Cn.has_buffer (H.work s))); [split; reflexivity|].
    rewrite Hreads by reflexivity. split; reflexivity.
  - destruct (H.plugin s) eqn:Ep.
    + cbn [andb]. rewrite Hreads by exact Hrt. split; reflexivity.
    + pose proof (wtd_frame c e s) as F. destruct (H.write_to_descriptors c e s) as [s' b].
      destruct F as (F1 & F2 & F3). hsimpl. rewrite F1.
      destruct (b && negb (Cn.has_buffer (H.work s))); [hsimpl; split; assumption|].
      destruct b; rewrite Hreads by (hsimpl; congruence); hsimpl; split; assumption.
    + pose proof (wtd_frame c e s) as F. destruct (H.write_to_descriptors c e s) as [s' b].
      destruct F as (F1 & F2 & F3). hsimpl. rewrite F1.
      destruct (b && negb (Cn.has_buffer (H.work s))); [hsimpl; split; assumption|].
      destruct b; rewrite Hreads by (hsimpl; congruence); hsimpl; split; assumption.
Qed.

(* ================================================================== relaying while draining after a rejection *)
(* the event: the upstream socket is readable and recv() returns [raw] *)
Definition up_ev (t : Z) (raw : bytes) : H.event :=
  H.mkEvent t false false true false Cn.WouldBlock Cn.WouldBlock H.ROsErr (H.RData raw) H.RIncomplete H.DNothing.

Record relaying (s : H.hstate) : Prop := {
  rl_plugin : H.plugin s = H.PProxy;
  rl_up : exists u, H.upstream s = Some u;
  rl_rt : H.reads_teared s = false;
  rl_wt : H.writes_teared s = false }.

Lemma relay_step hc t raw s : relaying s -> raw <> [] ->
  exists s', H.step hc s (up_ev t raw) = (s', H.Continue) /\ relaying s' /\
    H.g_cl_queued s' = H.g_cl_queued s ++ raw /\ H.must_flush s' = H.must_flush s /\
    H.work s' = Cn.queue raw (H.work s).
Proof.
  intros [Hpl [u Hu] Hrt Hwt] Hraw. destruct raw as [|x r]; [contradiction|].
  unfold H.step, H.select. rewrite (LI.get_events_proxy s Hpl).
  cbn [up_ev H.now H.c_r H.c_w H.u_r H.u_w H.c_send H.u_send H.c_recv H.u_recv H.req H.cdata H.i_cr H.i_cw H.i_ur H.i_uw andb].
  rewrite Hu. set (e := H.mkEvent _ _ _ _ _ _ _ _ _ _ _).
  rewrite LI.handle_events_split, (LI.hw_idle hc e s eq_refl). cbv beta iota.
  rewrite (LI.after_w_widle hc e s Hpl eq_refl), Hwt.
  unfold LI.he_reads. hsimpl. rewrite Hrt.
  rewrite (LI.hr_idle hc e _ eq_refl). hsimpl. rewrite Hpl.
  unfold H.read_from_descriptors. hsimpl. rewrite Hpl, Hu.
  change (H.u_r e) with true. change (H.u_recv e) with (H.RData (x :: r)). cbv beta iota.
  unfold LI.final. hsimpl. cbn [andb].
  eexists. split; [reflexivity|]. hsimpl. repeat split; try assumption; try reflexivity.
  exists u. exact Hu.
Qed.

Section ChainRelay.
  Variable cf : P.config.
  Variable ps : list P.plugin.
  (* the scope of Handler.v: the handle_upstream_chunk hooks are the inherited identity *)
  Hypothesis Hid : forall p, In p ps -> forall l b, P.handle_upstream_chunk p l b = A.Pass b.

  Lemma huc_chain_identity : forall qs l b, (forall p, In p qs -> In p ps) ->
    P.chain P.HUC P.ABytes P.handle_upstream_chunk qs b l =
    (l ++ map (fun p => P.Call (P.pid p) P.HUC (P.ABytes b)) qs, P.Done b).
  Proof.
    induction qs as [|p qs IH]; intros l b Hin; cbn [P.chain map]; [rewrite app_nil_r; reflexivity|].
    rewrite (Hid p (Hin p (or_introl eq_refl))). rewrite IH by (intros q Hq; apply Hin; right; exact Hq).
    rewrite <- app_assoc. reflexivity.
  Qed.

  Definition client_bytes (l : P.log) : bytes :=
    concat (map (fun e => match e with P.QueueClient b => b | _ => [] end) l).

  Lemma client_bytes_app l1 l2 : client_bytes (l1 ++ l2) = client_bytes l1 ++ client_bytes l2.
  Proof. unfold client_bytes. rewrite map_app, concat_app. reflexivity. Qed.
  Lemma client_bytes_calls (qs : list P.plugin) b :
    client_bytes (map (fun p => P.Call (P.pid p) P.HUC (P.ABytes b)) qs) = [].
  Proof. induction qs as [|p qs IH]; [reflexivity|]. unfold client_bytes in *. cbn [map concat app]. exact IH. Qed.

  Lemma calls_benign (qs : list P.plugin) b :
    forallb (fun e => match e with P.Teardown | P.Escaped _ => false | _ => true end)
            (map (fun p => P.Call (P.pid p) P.HUC (P.ABytes b)) qs) = true.
  Proof. induction qs as [|p qs IH]; [reflexivity|]. cbn [map forallb andb]. exact IH. Qed.

  (* MAIN LINK: for every list of chunks the upstream sends while the connection is draining (or not), the chain
     model logs exactly these chunks as queued for the client, and Handler.v — in a state with
     must_flush_before_shutdown = draining — queues the same bytes and keeps going *)
  Theorem chain_relay_is_handler hc st draining : P.st_upstream st = true ->
    forall traws l s, relaying s -> H.must_flush s = draining -> Forall (fun tr => snd tr <> []) traws ->
    let '(l', st') := P.run_steps cf ps (Some st) draining (map (fun tr => P.SUpstream (snd tr)) traws) l in
    let '(s', v) := H.run hc s (map (fun tr => up_ev (fst tr) (snd tr)) traws) in
    st' = Some st /\ v = H.Continue /\ relaying s' /\ H.must_flush s' = draining /\
    exists d, l' = l ++ d /\ client_bytes d = concat (map snd traws) /\
              H.g_cl_queued s' = H.g_cl_queued s ++ client_bytes d /\
              forallb (fun e => match e with P.Teardown | P.Escaped _ => false | _ => true end) d = true.
  Proof.
    intros Hup. induction traws as [|[t raw] r IH]; intros l s Hrel Hmf Hne.
    - cbn [map P.run_steps H.run]. split; [reflexivity|]. split; [reflexivity|]. split; [exact Hrel|]. split; [exact Hmf|].
      exists []. rewrite !app_nil_r. repeat split; reflexivity.
    - cbn [map P.run_steps H.run fst snd]. rewrite Hup.
      unfold P.on_upstream_data. rewrite (huc_chain_identity ps l raw (fun p Hp => Hp)).
      destruct (relay_step hc t raw s Hrel (Forall_inv Hne)) as (s1 & E1 & R1 & G1 & M1 & _).
      rewrite E1.
      specialize (IH (((l ++ map (fun p => P.Call (P.pid p) P.HUC (P.ABytes raw)) ps) ++ [P.QueueClient raw])) s1 R1
                     (eq_trans M1 Hmf) (Forall_inv_tail Hne)).
      destruct (P.run_steps cf ps (Some st) draining (map (fun tr => P.SUpstream (snd tr)) r) _) as [l' st'].
      destruct (H.run hc s1 (map (fun tr => up_ev (fst tr) (snd tr)) r)) as [s' v].
      destruct IH as (I1 & I2 & I3 & I4 & d & D1 & D2 & D3 & D4).
      split; [exact I1|]. split; [exact I2|]. split; [exact I3|]. split; [exact I4|].
      exists ((map (fun p => P.Call (P.pid p) P.HUC (P.ABytes raw)) ps ++ [P.QueueClient raw]) ++ d).
      split; [rewrite D1, <- !app_assoc; reflexivity|].
      rewrite !client_bytes_app, client_bytes_calls. cbn [app].
      assert (Eq1 : client_bytes [P.QueueClient raw] = raw) by (unfold client_bytes; cbn [map concat]; apply app_nil_r).
      rewrite Eq1. cbn [map concat snd]. rewrite D2. split; [reflexivity|]. split.
      + rewrite D3, G1, D2, <- app_assoc. reflexivity.
      + rewrite !forallb_app, D4, calls_benign. reflexivity.
  Qed.
End ChainRelay.

(* ================================================================== shutdown() *)
(* HttpProtocolHandler.shutdown in both vocabularies.  [ff] is the chain model's cf_final_flush
   (`self.selector and self.work.has_buffer()` when shutdown() is entered). *)
Theorem chain_shutdown_is_handler ps st c0 (ff : bool) l l1 c sel s :
  P.on_client_connection_close ps st c0 (if ff then l ++ [P.ClientFlush] else l) = (l1, None) ->
  (P.st_upstream st = true <-> exists u, H.upstream s = Some u) ->
  ff = negb (H.threadless c) && Cn.has_buffer (H.work s) ->
  let l' := P.shutdown ps (Some st) c0 ff l in
  let s' := H.shutdown c sel s in
  (* the client socket: shut down, then closed, last *)
  l' = l1 ++ [P.ClientShutdown; P.ClientClose] /\ Cn.closed (H.work s') = true /\
  (* the upstream socket is closed iff there is one *)
  (P.st_upstream st = true -> In P.UpstreamClose l' /\ exists u', H.upstream s' = Some u' /\ Cn.closed u' = true) /\
  (P.st_upstream st = false -> H.upstream s' = None) /\
  (* the final flush: only in threaded mode with output pending, and before anything else *)
  (ff = false -> Cn.sent (H.work s') = Cn.sent (H.work s) /\ Cn.buffer (H.work s') = Cn.buffer (H.work s)) /\
  (ff = true -> exists d, l' = l ++ P.ClientFlush :: d).
Proof.
  intros Hocc Hup Hff. cbv zeta. unfold P.shutdown, P.shutdown_core. rewrite Hocc.
  split; [reflexivity|].
  assert (Hwork : Cn.closed (H.work (H.shutdown c sel s)) = true /\
                  (ff = false -> Cn.sent (H.work (H.shutdown c sel s)) = Cn.sent (H.work s) /\
                                 Cn.buffer (H.work (H.shutdown c sel s)) = Cn.buffer (H.work s)) /\
                  H.upstream (H.shutdown c sel s) = match H.upstream s with Some u => Some (Cn.close u) | None => None end).
  { unfold H.shutdown. destruct (H.threadless c) eqn:Et.
    - unfold H.close_upstream. cbn [H.upstream H.set_work].
      destruct (H.upstream s) eqn:Eu; cbn [H.work H.upstream H.set_upstream H.set_work Cn.close Cn.closed Cn.sent Cn.buffer];
        rewrite ?Eu; repeat split; reflexivity.
    - destruct (H.threaded_flush (H.max_send c) sel (H.work s)) as [w r] eqn:Ef.
      unfold H.close_upstream. cbn [H.upstream H.set_work].
      assert (Hnb : ff = false -> w = H.work s).
      { intros X. rewrite X in Hff. cbn [negb andb] in Hff.
        destruct sel as [|o sel']; cbn [H.threaded_flush] in Ef; rewrite <- Hff in Ef; inversion Ef; reflexivity. }
      destruct (H.upstream s) eqn:Eu; cbn [H.work H.set_upstream H.set_work Cn.close Cn.closed Cn.sent Cn.buffer H.upstream];
        rewrite ?Eu; (split; [reflexivity|]); (split; [|reflexivity]); intros X; rewrite (Hnb X); split; reflexivity. }
  destruct Hwork as (W1 & W2 & W3).
  split; [exact W1|]. split; [|split; [|split]].
  - intros Hs. destruct (proj1 Hup Hs) as [u Hu]. split.
    + apply in_or_app. left.
      unfold P.on_client_connection_close in Hocc.
      destruct (P.access_log_stage ps (A.rq_tunnel (P.st_request st)) c0 _) as [l2 [x|]]; [discriminate|].
      destruct (P.close_chain ps l2) as [l3 [y|]]; [discriminate|].
      rewrite Hs in Hocc. inversion Hocc. apply in_or_app. right. left. reflexivity.
    + rewrite W3, Hu. eexists. split; reflexivity.
  - intros Hs. rewrite W3. destruct (H.upstream s) as [u|] eqn:Hu; [|reflexivity].
    assert (X : P.st_upstream st = true) by (apply Hup; eexists; reflexivity). congruence.
  - exact W2.
  - intros X. subst ff. rewrite X in Hocc.
    pose proof (PM.Net.PluginChainFacts.occ_post ps st c0 (l ++ [P.ClientFlush])) as D. rewrite Hocc in D. cbn [fst] in D.
    destruct D as [d [D _]]. exists (d ++ [P.ClientShutdown; P.ClientClose]).
    rewrite D, <- !app_assoc. reflexivity.
Qed.

(* ================================================================== a hook raising OSError: reads are torn (formerly a disagreement) *)
(* A plugin whose handle_client_request raises OSError the second time it is called. *)
Definition boom : P.plugin :=
  P.mkPlugin 1 (bs "Boom") (fun _ r => A.Pass r) (fun _ _ _ => Some (None, None))
             (fun l r => if existsb (P.is_call_of P.HCR) l then A.Raise (OSError 5) else A.Pass r)
             (fun _ b => A.Pass b) (fun _ b => A.Pass b) (fun _ c => A.Pass c) (fun _ => None).
Definition ex_r : A.request :=
  A.mkRequest (bs "GET") (Some (bs "h")) (Some 80%Z) (Some (bs "/")) (bs "HTTP/1.1") [] None false [].
Definition ex_cf : P.config := P.mkConfig (bs "a") [] false.
Definition ex_steps : list P.step :=
  [P.SFirst ex_r true; P.SUpstream (bs "resp"); P.SClient (bs "GET2") [P.PComplete ex_r []]; P.SUpstream (bs "more")].

(* FirstRequest.v (C06), the same situation with abstract hooks: the request is served (the hook queues "resp" for
   the client, which is not writable), then on_client_data raises OSError. *)
Definition ex_qc : Q.config := {| Q.agent := bs "a"; Q.plugin_klasses := Some [[HTTP_PROXY]]; Q.max_send := 65536 |}.
Definition ex_orc (k : N) (p : parser) : list bytes * Q.orc_outcome := ([bs "resp"], Q.RetBool false).
Definition ex_ocd (k : N) (p : parser) (hist : list bytes) (raw : bytes) : list bytes * Q.ocd_outcome :=
  ([], Q.OcdRaise (Q.Other (OSError 5))).
Definition ex_qevs : list Q.event :=
  [ {| Q.ev_w := None; Q.ev_r := Some (Q.Data (bs "GET http://h/ HTTP/1.1" ++ CRLF ++ CRLF)) |};
    {| Q.ev_w := None; Q.ev_r := Some (Q.Data (bs "GET2")) |} ].

Lemma firstrequest_hook_oserror_tears_reads :
  let h := Q.run ex_qc ex_orc ex_ocd ex_qevs in
  Q.reads_teared h = true /\ Q.must_flush h = false /\ Q.torn h = false /\ Q.buffer h = [bs "resp"].
Proof. vm_compute. repeat split; reflexivity. Qed.

(* AGREEMENT (was the disagreement [chain_oserror_drain_differ] until Net/PluginChain.v run_steps got its
   reads-teared branch).  /repo: the OSError of a hook leaves handle_data, is caught by
   HttpProtocolHandler.handle_readables (`except socket.error: return True`), so reads_teared — not
   must_flush_before_shutdown — is set, and with reads_teared handle_events no longer calls
   plugin.read_from_descriptors: the next upstream chunk is neither read nor relayed and no handle_upstream_chunk
   hook runs (replayed through harness/sim.py; corpus/C09/oserror-drain.json).  The three models now say the same:
   (1) chain model, every configuration / plugin list / history: the step whose hook raised OSError puts Teardown
       in the log and NO later step (client bytes, upstream chunks) adds anything;
   (2) Handler.v: with reads_teared a handle_events call neither queues for the client nor touches its buffer;
   (3) on the concrete history (request served, response chunk "resp" pending, second request's hook raises
       OSError, upstream sends "more"): the chain log ends with Teardown, the client queue is exactly "resp",
       "more" reaches no hook; FirstRequest.v ends with reads_teared, must_flush unset, buffer = "resp". *)
Theorem chain_oserror_is_handler :
  (forall cf ps n,
     (forall r c rest l l1 st1,
        P.on_request_complete cf ps r c l = (l1, P.Failed st1 (P.FRaise (OSError n))) ->
        P.run_steps cf ps None false (P.SFirst r c :: rest) l = (l1 ++ [P.Teardown], Some st1)) /\
     (forall st0 raw parses rest l l1 st1,
        P.on_client_data cf ps st0 raw parses l = (l1, P.Failed st1 (P.FRaise (OSError n))) ->
        P.run_steps cf ps (Some st0) false (P.SClient raw parses :: rest) l = (l1 ++ [P.Teardown], Some st1))) /\
  (forall c e s, H.reads_teared s = true -> H.c_w e = false ->
     H.work (fst (H.handle_events c e s)) = H.work s /\
     H.g_cl_queued (fst (H.handle_events c e s)) = H.g_cl_queued s) /\
  (let l := fst (P.run_steps ex_cf [boom] None false ex_steps []) in
   let h := Q.run ex_qc ex_orc ex_ocd ex_qevs in
   (exists pre, l = pre ++ [P.Teardown] /\ P.client_queue pre = [P.QueueClient (bs "resp")] /\
      existsb (fun e => match e with P.Call _ P.HUC (P.ABytes b) => bytes_eqb b (bs "more") | _ => false end) l = false) /\
   Q.reads_teared h = true /\ Q.must_flush h = false /\ Q.buffer h = [bs "resp"]).
Proof.
  split; [exact PM.Net.PluginChainFacts.hook_oserror_tears_reads|].
  split; [exact handler_reads_teared_skips_reads|].
  cbv zeta. split.
  - set (l := fst (P.run_steps ex_cf [boom] None false ex_steps [])).
    exists (removelast l). vm_compute. repeat split; reflexivity.
  - vm_compute. repeat split; reflexivity.
Qed.
