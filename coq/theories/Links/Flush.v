(* Model coherence, part 4: TcpConnection.queue / flush / has_buffer (proxy/core/connection/connection.py)
   are modelled in Net/Conn.v (C01; Net/Handler.v and Net/Tunnel.v IMPORT it) and again, inlined into
   the handler record, in Net/FirstRequest.v (C06: [buffer]/[sent] fields, queue_h/queue_p, flush).
   Net/Conversation.v (C04) abstracts the write side to "a flush delivers everything queued" (EFlush):
   that abstraction is linked to Conn.flush_many below.
   This file: the C06 copy IS Conn.v on the client connection seen through [conn_of]. *)
From PM Require Import Lib.Bytes Lib.BytesFacts.
From PM Require Net.Conn Net.ConnFacts Net.FirstRequest Net.Conversation.
From Coq Require Import ZArith Lia.

Module Cn := PM.Net.Conn.
Module CF := PM.Net.ConnFacts.
Module Q := PM.Net.FirstRequest.
Module K := PM.Net.Conversation.

(* the TcpConnection inside a C06 handler record *)
Definition conn_of (h : Q.handler) : Cn.conn := Cn.mkConn (Q.buffer h) (Q.torn h) (Q.sent h).

Lemma has_buffer_eq h : Q.has_buffer h = Cn.has_buffer (conn_of h).
Proof. unfold Q.has_buffer, Cn.has_buffer, conn_of. cbn [Cn.buffer]. destruct (Q.buffer h); reflexivity. Qed.

Lemma queue_h_eq h r site : conn_of (Q.queue_h h r site) = Cn.queue r (conn_of h).
Proof. reflexivity. Qed.

Lemma queue_p_eq h q : conn_of (Q.queue_p h q) = Cn.queue_all q (conn_of h).
Proof.
  unfold conn_of. cbn [Q.buffer Q.queue_p Q.mk Q.torn Q.sent].
  generalize (Q.buffer h) as b. induction q as [|x q IH]; intros b.
  - cbn [Cn.queue_all]. rewrite app_nil_r. reflexivity.
  - cbn [Cn.queue_all]. unfold Cn.queue at 1. cbn [Cn.buffer Cn.closed Cn.sent].
    rewrite <- IH. rewrite <- app_assoc. reflexivity.
Qed.

(* flush: the C06 copy takes flags.max_sendbuf_size literally, Conn.v (and the Python:
   `max_send_size or DEFAULT_MAX_SEND_SIZE`) maps 0 to 65536.  Equal for every positive limit. *)
Theorem flush_eq cfg h k : Q.max_send cfg <> 0 ->
  Cn.flush (Q.max_send cfg) (Cn.Accept k) (conn_of h) =
  (conn_of (Q.flush cfg h k),
   Cn.Flushed (match Q.buffer h with [] => 0 | mv :: _ => N.min k (len (take (Q.max_send cfg) mv)) end)).
Proof.
  intros Hm. unfold Cn.flush, Q.flush, conn_of. cbn [Cn.buffer Cn.closed Cn.sent].
  destruct (Q.buffer h) as [|mv rest] eqn:Eb; [rewrite Eb; reflexivity|].
  unfold Cn.eff_max. destruct (N.eqb_spec (Q.max_send cfg) 0) as [E|_]; [contradiction|]. cbv zeta.
  set (m := Q.max_send cfg). set (n := N.min k (len (take m mv))).
  assert (Ht : take n (take m mv) = take n mv).
  { apply CF.take_take_min. unfold n. rewrite CF.len_take. lia. }
  rewrite Ht.
  destruct (n =? len mv); reflexivity.
Qed.

(* outside C06's stated scope (max_sendbuf_size > 0) the copy differs: with the limit 0 it never sends *)
Lemma flush_differ_zero :
  let cfg := {| Q.agent := []; Q.plugin_klasses := None; Q.max_send := 0 |} in
  let h := Q.queue_h Q.new_handler (bs "abc") None in
  fst (Cn.flush 0 (Cn.Accept 10) (conn_of h)) <> conn_of (Q.flush cfg h 10).
Proof. vm_compute. discriminate. Qed.

(* Net/Conversation.v: "EFlush hands every queued piece to the socket".  In Conn.v terms: whenever a run
   of flush calls has emptied the buffer, the peer has received exactly the queued pieces, in order,
   whatever the short-write pattern was (Conn's ghost [sent]). *)
Theorem conversation_flush_abstraction max os pieces c' r :
  Cn.flush_many max os (Cn.queue_all pieces Cn.new_conn) = (c', r) ->
  Cn.has_buffer c' = false ->
  Cn.sent c' = concat pieces /\
  K.up_stream (K.up_flush (K.mkUp [] 0%Z pieces 0%nat false)) = Cn.sent c'.
Proof.
  intros Hf Hb.
  pose proof (CF.flush_many_conservation max os _ _ _ Hf) as Hc.
  rewrite CF.queue_all_conservation in Hc.
  apply CF.has_buffer_false in Hb. unfold Cn.pending in Hc. rewrite Hb in Hc.
  cbn [concat Cn.new_conn Cn.sent Cn.buffer app] in Hc. rewrite app_nil_r in Hc.
  split; [exact Hc|].
  unfold K.up_stream, K.up_flush. cbn [K.up_nsent K.up_queued]. rewrite firstn_all. symmetry. exact Hc.
Qed.
