(* Model coherence, part 2 (event loops), file 2: the relay loop of an established CONNECT exchange
     HttpProtocolHandler.handle_events / handle_writables / handle_readables, BaseTcpServerHandler.*,
     HttpProxyPlugin.write_to_descriptors / read_from_descriptors / on_client_data, TcpConnection.flush
   is modelled
     - in Net/Handler.v (C01/C07/C20) as ONE function handle_events over the flags must_flush_before_shutdown /
       writes_teared / reads_teared, the event naming the ready descriptors and the outcome of each I/O call;
     - in Tls/Intercept.v (C11) as a MODE machine (Running / MustFlush / ReadsTeared / WritesTeared / Closed)
       whose events are single I/O calls with their outcome.
   This file maps an Intercept event to the Handler event with exactly that descriptor ready ([hev_of]), relates
   a mode to the three flags ([mode_rel]) and proves that Intercept.step and Handler.step are in lock-step for
   every related state pair and every single-I/O event: same client / upstream buffers and bytes on the wire,
   related mode and flags, same verdict (continue / torn down / exception escaped).
   It also proves that Intercept's private copy of TcpConnection.flush is Net/Conn.v's ([conn_flush_eq]).
   The two disagreements once recorded here (response parser raising, protocol exception of the follow-up request
   parser) were repaired in Tls/Intercept.v; they are now agreement lemmas at the end of the file. *)
From PM Require Import Lib.Bytes Lib.BytesFacts Lib.PyStr.
From PM Require Net.Conn Net.ConnFacts Net.Handler Tls.Intercept.
From Coq Require Import ZArith Lia.

Module Cn := PM.Net.Conn.
Module CF := PM.Net.ConnFacts.
Module H := PM.Net.Handler.
Module I := PM.Tls.Intercept.

(* ================================================================== Handler.handle_events in three pieces *)
Definition final (s4 : H.hstate) : H.hstate * H.res :=
  if H.reads_teared s4 && negb (Cn.has_buffer (H.work s4)) then (s4, H.Teardown) else (s4, H.Continue).

Definition he_reads (c : H.cfg) (e : H.event) (s3 : H.hstate) : H.hstate * H.res :=
  let '(s4, r) :=
      if H.reads_teared s3 then (s3, Some true)
      else match H.handle_readables c e s3 with
           | (s', Some true) => (H.set_reads_teared true s', Some true)
           | (s', None) => (s', None)
           | (s', Some false) =>
               match H.plugin s' with
               | H.PNone => (s', Some false)
               | _ => match H.read_from_descriptors c e s' with
                      | (s'', Some b) => (H.set_reads_teared b s'', Some b)
                      | (s'', None) => (s'', None)
                      end
               end
           end in
  match r with
  | None => (s4, H.Raised)
  | Some _ => final s4
  end.

Definition he_after_w (c : H.cfg) (e : H.event) (s1 : H.hstate) : H.hstate * H.res :=
  let '(s2, wt2) :=
      if H.writes_teared s1 then (s1, true)
      else match H.plugin s1 with
           | H.PNone => (s1, false)
           | _ => let '(s', b) := H.write_to_descriptors c e s1 in (H.set_writes_teared b s', b)
           end in
  if wt2 && negb (Cn.has_buffer (H.work s2)) then (s2, H.Teardown) else
  he_reads c e (if wt2 then H.set_reads_teared true s2 else s2).

Lemma handle_events_split c e s :
  H.handle_events c e s =
  let '(s1, wt) := H.handle_writables c e s in
  if wt then (H.set_writes_teared true s1, H.Teardown) else he_after_w c e s1.
Proof.
  unfold H.handle_events, he_after_w, he_reads, final.
  destruct (H.handle_writables c e s) as [s1 [|]]; [reflexivity|].
  destruct (if H.writes_teared s1 then (s1, true) else _) as [s2 wt2].
  destruct (wt2 && negb (Conn.has_buffer (H.work s2))); reflexivity.
Qed.

(* components whose descriptor is not ready do nothing *)
Lemma hw_idle c e s : H.c_w e = false -> H.handle_writables c e s = (s, false).
Proof. intros E. unfold H.handle_writables. rewrite E. reflexivity. Qed.
Lemma wtd_idle c e s : H.u_w e = false -> H.write_to_descriptors c e s = (s, false).
Proof. intros E. unfold H.write_to_descriptors. rewrite E. destruct (H.plugin s), (H.upstream s); reflexivity. Qed.
Lemma hr_idle c e s : H.c_r e = false -> H.handle_readables c e s = (s, Some false).
Proof. intros E. unfold H.handle_readables. rewrite E. reflexivity. Qed.
Lemma rfd_idle c e s : H.u_r e = false -> H.read_from_descriptors c e s = (s, Some false).
Proof. intros E. unfold H.read_from_descriptors. rewrite E. destruct (H.plugin s), (H.upstream s); reflexivity. Qed.
Lemma wtd_no_upstream c e s : H.upstream s = None -> H.write_to_descriptors c e s = (s, false).
Proof. intros E. unfold H.write_to_descriptors. rewrite E. destruct (H.plugin s); reflexivity. Qed.
Lemma rfd_no_upstream c e s : H.upstream s = None -> H.read_from_descriptors c e s = (s, Some false).
Proof. intros E. unfold H.read_from_descriptors. rewrite E. destruct (H.plugin s); reflexivity. Qed.

(* ================================================================== TcpConnection.flush: Intercept's copy is Conn.v's *)
Definition outcome_of (o : I.send_outcome) : Cn.outcome :=
  match o with
  | I.SendOk k => Cn.Accept k
  | I.SendRaise e =>
      if I.is_BlockingIOError e then Cn.WouldBlock
      else if I.is_SSLWantWriteError e then Cn.WouldBlock       (* 3a87c83: try again later, nothing sent *)
      else if I.is_BrokenPipeError e then Cn.Broken
      else Cn.OsErr
  end.

Lemma wire_bytes_snoc w b d : I.wire_bytes (w ++ [(b, d)]) = I.wire_bytes w ++ d.
Proof. unfold I.wire_bytes. rewrite map_app, concat_app. cbn [map concat snd]. rewrite app_nil_r. reflexivity. Qed.

(* the flush of one send() with an outcome that is not an exception other than OSError *)
Theorem conn_flush_eq max buf closed sent o :
  (forall e, o = I.SendRaise e -> I.is_OSError e = true) ->
  match I.conn_flush max buf o, Cn.flush max (outcome_of o) (Cn.mkConn buf closed sent) with
  | I.FsNoop, (c', Cn.Flushed _) => c' = Cn.mkConn buf closed sent
  | I.FsSent data buf', (c', Cn.Flushed _) => c' = Cn.mkConn buf' closed (sent ++ data)
  | I.FsRaise e, (c', r) => c' = Cn.mkConn buf closed sent /\
                            (if I.is_SSLWantWriteError e then r = Cn.Flushed 0
                             else (r = Cn.FlushBroken \/ r = Cn.FlushOsErr) /\ I.is_OSError e = true)
  | _, _ => False
  end.
Proof.
  intros Hos. unfold I.conn_flush, Cn.flush. cbn [Cn.buffer Cn.closed Cn.sent].
  destruct buf as [|mv rest]; [reflexivity|].
  destruct o as [k|e]; cbn [outcome_of].
  - unfold Cn.eff_max, Cn.DEFAULT_MAX_SEND_SIZE, I.DEFAULT_MAX_SEND_SIZE.
    set (m := if max =? 0 then 65536 else max). set (n := N.min k (len (take m mv))).
    assert (Ht : take n (take m mv) = take n mv) by (apply CF.take_take_min; unfold n; rewrite CF.len_take; lia).
    rewrite Ht. reflexivity.
  - specialize (Hos e eq_refl).
    destruct (I.is_BlockingIOError e) eqn:Eb; [reflexivity|].
    destruct (I.is_SSLWantWriteError e) eqn:Ew.
    + split; reflexivity.
    + destruct (I.is_BrokenPipeError e); (split; [reflexivity|]); auto.
Qed.

(* the part of a Handler state the relation reads *)
Definition hv (s : H.hstate) :=
  (H.work s, H.upstream s, H.must_flush s, H.writes_teared s, H.reads_teared s, H.req_complete s, H.plugin s,
   H.is_tunnel s, H.pipeline_upgrade s).

Ltac hsimpl :=
  cbn [H.work H.upstream H.must_flush H.writes_teared H.reads_teared H.req_complete H.plugin H.is_tunnel
       H.pipeline_upgrade H.set_work H.set_upstream H.set_must_flush H.set_writes_teared H.set_reads_teared
       H.set_last_activity H.note_client_io H.note_cl_rcvd H.note_up_rcvd H.set_pipeline_upgrade H.client_queue].

Lemma get_events_proxy s : H.plugin s = H.PProxy ->
  H.get_events s = H.mkInt (negb (H.must_flush s)) (Cn.has_buffer (H.work s))
                           (match H.upstream s with Some _ => true | None => false end)
                           (match H.upstream s with Some u => Cn.has_buffer u | None => false end).
Proof.
  intros Hp. unfold H.get_events, H.base_get_events, H.plugin_get_descriptors. rewrite Hp.
  destruct (H.upstream s); reflexivity.
Qed.

Lemma after_w_widle c e s1 : H.plugin s1 = H.PProxy -> H.u_w e = false ->
  he_after_w c e s1 =
  if H.writes_teared s1
  then (if negb (Cn.has_buffer (H.work s1)) then (s1, H.Teardown) else he_reads c e (H.set_reads_teared true s1))
  else he_reads c e (H.set_writes_teared false s1).
Proof.
  intros Hp Hw. unfold he_after_w. destruct (H.writes_teared s1).
  - cbn [andb]. destruct (negb (Cn.has_buffer (H.work s1))); reflexivity.
  - rewrite Hp, (wtd_idle c e s1 Hw). reflexivity.
Qed.

Lemma reads_idle c e s3 : H.plugin s3 = H.PProxy -> H.c_r e = false -> H.u_r e = false ->
  he_reads c e s3 = if H.reads_teared s3 then final s3 else final (H.set_reads_teared false s3).
Proof.
  intros Hp Hc Hu. unfold he_reads. destruct (H.reads_teared s3); [reflexivity|].
  rewrite (hr_idle c e s3 Hc), Hp, (rfd_idle c e s3 Hu). reflexivity.
Qed.

Lemma not_os_not_wantread e : I.is_OSError e = false -> I.is_SSLWantReadError e = false.
Proof. destruct e; simpl; congruence. Qed.

Section Relay.
  Variable PS RS : Type.
  Variable pipeline_step : PS -> bytes -> (PS * list bytes) + I.pipe_failure.
  Variable response_step : RS -> bytes -> option RS.
  Variable fl : I.flags.
  Variable hc : H.cfg.
  Hypothesis Hmax : H.max_send hc = I.max_sendbuf_size fl.

  Notation istate := (I.hstate PS RS).
  Notation istep := (I.step PS RS pipeline_step response_step fl).

  Definition mode_rel (m : I.hmode) (s : H.hstate) : Prop :=
    match m with
    | I.Running => H.must_flush s = false /\ H.reads_teared s = false /\ H.writes_teared s = false
    | I.MustFlush => H.must_flush s = true /\ H.reads_teared s = false /\ H.writes_teared s = false
    | I.ReadsTeared => H.reads_teared s = true /\ H.writes_teared s = false
    | I.WritesTeared => H.reads_teared s = true /\ H.writes_teared s = true
    | I.Closed => False
    end.

  Definition work_rel (p : I.pst) (w : Cn.conn) : Prop :=
    exists cl, w = Cn.mkConn (I.cl_buf p) cl (I.wire_bytes (I.cl_wire p)).
  Definition up_rel (p : I.pst) (u : option Cn.conn) : Prop :=
    match I.up p with
    | I.UpNone => u = None
    | _ => exists cl, u = Some (Cn.mkConn (I.up_buf p) cl (I.wire_bytes (I.up_wire p)))
    end.

  Record rel (h : istate) (s : H.hstate) : Prop := {
    r_work : work_rel (I.ps h) (H.work s);
    r_up : up_rel (I.ps h) (H.upstream s);
    r_mode : mode_rel (I.mode h) s;
    r_pending : I.mode h <> I.Running -> I.cl_buf (I.ps h) <> [];
    r_esc : I.escaped h = None;
    r_complete : H.req_complete s = true;
    r_plugin : H.plugin s = H.PProxy;
    r_upg : H.pipeline_upgrade s = false }.

  Definition live (h : istate) : Prop := I.cl (I.ps h) <> I.ClDead /\ I.up (I.ps h) <> I.UpDead.

  Lemma rel_view h s s' : hv s' = hv s -> rel h s -> rel h s'.
  Proof.
    unfold hv. intros E [A B C D F G K L]. injection E as V0 V1 V2 V3 V4 V5 V6 V7 V8.
    split; try congruence; try assumption.
    destruct (I.mode h); unfold mode_rel in *; try congruence; intuition congruence.
  Qed.

  (* ---------------------------------------------------------------- the event map *)
  Definition recv_exn (e : I.pyexn) : H.recv_res :=
    match e with
    | I.ConnectionResetError => H.RReset
    | I.TimeoutError => H.RTimeout true         (* Intercept's TimeoutError is the kernel's ETIMEDOUT *)
    | _ => H.ROsErr
    end.

  Definition cdata_of (h : istate) (a : list bool) (raw : bytes) : H.cdata_outcome :=
    if I.tls_intercept_enabled_ fl a then
      match pipeline_step (I.pipe h) raw with
      | inl (_, outs) => H.DForward outs false
      | inr (I.PipeProtocol _) => H.DProto []      (* HttpProtocolException, response() is None *)
      | inr (I.PipeRaise _) => H.DRaise
      end
    else H.DNothing.

  Definition idle_ev (t : Z) : H.event :=
    H.mkEvent t false false false false Cn.WouldBlock Cn.WouldBlock H.ROsErr H.ROsErr H.RIncomplete H.DNothing.

  Definition hev_of (t : Z) (h : istate) (ev : I.event) : H.event :=
    match ev with
    | I.ClientData a raw =>
        H.mkEvent t true false false false Cn.WouldBlock Cn.WouldBlock (H.RData raw) H.ROsErr H.RIncomplete (cdata_of h a raw)
    | I.UpstreamData a raw =>
        H.mkEvent t false false true false Cn.WouldBlock Cn.WouldBlock H.ROsErr (H.RData raw) H.RIncomplete H.DNothing
    | I.ClientWrite o =>
        H.mkEvent t false true false false (outcome_of o) Cn.WouldBlock H.ROsErr H.ROsErr H.RIncomplete H.DNothing
    | I.UpstreamWrite o =>
        H.mkEvent t false false false true Cn.WouldBlock (outcome_of o) H.ROsErr H.ROsErr H.RIncomplete H.DNothing
    | I.ClientRecvRaise e =>
        if I.is_SSLWantReadError e then idle_ev t     (* try again later: as if the descriptor had not been ready *)
        else H.mkEvent t true false false false Cn.WouldBlock Cn.WouldBlock (recv_exn e) H.ROsErr H.RIncomplete H.DNothing
    | I.UpstreamRecvRaise e =>
        if I.is_SSLWantReadError e then idle_ev t
        else H.mkEvent t false false true false Cn.WouldBlock Cn.WouldBlock H.ROsErr (recv_exn e) H.RIncomplete H.DNothing
    | I.UpstreamEOF =>
        H.mkEvent t false false true false Cn.WouldBlock Cn.WouldBlock H.ROsErr H.REof H.RIncomplete H.DNothing
    | I.FlushClient | I.FlushUpstream => idle_ev t     (* not single I/O calls: excluded by [wf_ev] *)
    end.

  (* abstraction limits of Handler.v's oracle values (not disagreements): DProto has no "requests queued for the
     origin before the parser raised", and there is no value for "a hook raised OSError" *)
  Definition pipe_wf (r : (PS * list bytes) + I.pipe_failure) : Prop :=
    match r with
    | inl _ => True
    | inr (I.PipeProtocol outs) => outs = []
    | inr (I.PipeRaise e) => I.is_OSError e = false
    end.

  Definition wf_ev (h : istate) (ev : I.event) : Prop :=
    match ev with
    | I.ClientData a raw =>
        raw <> [] /\ (I.tls_intercept_enabled_ fl a = true -> pipe_wf (pipeline_step (I.pipe h) raw))
    | I.UpstreamData a raw => raw <> []
    | I.ClientWrite (I.SendRaise e) | I.UpstreamWrite (I.SendRaise e) => I.is_OSError e = true
    | I.ClientRecvRaise e | I.UpstreamRecvRaise e => I.is_OSError e = true
    | I.FlushClient | I.FlushUpstream => False
    | _ => True
    end.

  Definition tunnel_ok (s : H.hstate) (ev : I.event) : Prop :=
    forall a, I.event_answers ev = Some a -> H.is_tunnel s = negb (I.tls_intercept_enabled_ fl a).

  Definition out_rel (s : H.hstate) (h' : istate) (x : H.hstate * H.res) : Prop :=
    match snd x with
    | H.Continue => rel h' (fst x) /\ H.is_tunnel (fst x) = H.is_tunnel s
    | H.Teardown => I.mode h' = I.Closed /\ I.escaped h' = None /\ work_rel (I.ps h') (H.work (fst x))
    | H.Raised => I.mode h' = I.Closed /\ I.escaped h' <> None
    end.

  (* nothing ready, or nothing looked at because of the flags: the state is unchanged up to flag
     assignments that do not change the flags *)
  Lemma idle_sim e h s1 :
    rel h s1 ->
    (H.u_w e = false \/ I.mode h = I.WritesTeared) ->
    ((H.c_r e = false /\ H.u_r e = false) \/ I.mode h = I.ReadsTeared \/ I.mode h = I.WritesTeared) ->
    exists s', he_after_w hc e s1 = (s', H.Continue) /\ hv s' = hv s1.
  Proof.
    intros Hr Hw Hrd. pose proof Hr as [[cl Hwk] _ Hm Hp _ _ Hpl _].
    assert (Hhb : I.mode h <> I.Running -> Cn.has_buffer (H.work s1) = true).
    { intros Hn. specialize (Hp Hn). rewrite Hwk. unfold Cn.has_buffer. cbn [Cn.buffer].
      destruct (I.cl_buf (I.ps h)); [contradiction|reflexivity]. }
    destruct (I.mode h) eqn:Em; unfold mode_rel in Hm.
    - destruct Hw as [Hw|X]; [|discriminate X]. destruct Hrd as [[Hc Hu]|[X|X]]; try discriminate X.
      rewrite (after_w_widle hc e s1 Hpl Hw).
      destruct Hm as (M1 & M2 & M3). rewrite M3. rewrite reads_idle by (hsimpl; assumption). hsimpl. rewrite M2.
      unfold final. hsimpl. cbn [andb]. eexists. split; [reflexivity|]. unfold hv. hsimpl. rewrite M2, M3. reflexivity.
    - destruct Hw as [Hw|X]; [|discriminate X]. destruct Hrd as [[Hc Hu]|[X|X]]; try discriminate X.
      rewrite (after_w_widle hc e s1 Hpl Hw).
      destruct Hm as (M1 & M2 & M3). rewrite M3. rewrite reads_idle by (hsimpl; assumption). hsimpl. rewrite M2.
      unfold final. hsimpl. cbn [andb]. eexists. split; [reflexivity|]. unfold hv. hsimpl. rewrite M2, M3. reflexivity.
    - destruct Hw as [Hw|X]; [|discriminate X].
      rewrite (after_w_widle hc e s1 Hpl Hw).
      destruct Hm as (M2 & M3). rewrite M3. unfold he_reads. hsimpl. rewrite M2.
      unfold final. hsimpl. rewrite M2, Hhb by discriminate. cbn [andb negb].
      eexists. split; [reflexivity|]. unfold hv. hsimpl. rewrite M3. reflexivity.
    - destruct Hm as (M2 & M3). unfold he_after_w. rewrite M3, Hhb by discriminate. cbn [andb negb].
      unfold he_reads. hsimpl.
      unfold final. hsimpl. rewrite Hhb by discriminate. cbn [andb negb].
      eexists. split; [reflexivity|]. unfold hv. hsimpl. rewrite M2. reflexivity.
    - contradiction.
  Qed.

  Lemma reads_idle_sim e h s3 :
    rel h s3 -> H.c_r e = false -> H.u_r e = false ->
    exists s', he_reads hc e s3 = (s', H.Continue) /\ hv s' = hv s3.
  Proof.
    intros Hr Hc Hu. pose proof Hr as [[cl Hwk] _ Hm Hp _ _ Hpl _].
    rewrite (reads_idle hc e s3 Hpl Hc Hu). unfold final.
    destruct (H.reads_teared s3) eqn:Ert.
    - assert (Hhb : Cn.has_buffer (H.work s3) = true).
      { rewrite Hwk. unfold Cn.has_buffer. cbn [Cn.buffer].
        destruct (I.cl_buf (I.ps h)); [|reflexivity]. exfalso. apply Hp; [|reflexivity].
        intros X. rewrite X in Hm. destruct Hm as (_ & M2 & _). congruence. }
      rewrite Hhb. cbn [andb negb]. eexists. split; reflexivity.
    - hsimpl. cbn [andb]. eexists. split; [reflexivity|]. unfold hv. hsimpl. rewrite Ert. reflexivity.
  Qed.

  (* ---------------------------------------------------------------- Intercept.step, one event kind at a time *)
  Definition sent_cl (p : I.pst) (data : bytes) (buf' : list bytes) : I.pst :=
    I.mkPst (I.tr p) (I.fs p) (I.cl p) buf' (I.cl_wire p ++ [(I.is_tls_cl (I.cl p), data)]) (I.up p) (I.up_buf p)
            (I.up_wire p) (I.peer p).
  Definition sent_up (p : I.pst) (data : bytes) (buf' : list bytes) : I.pst :=
    I.mkPst (I.tr p) (I.fs p) (I.cl p) (I.cl_buf p) (I.cl_wire p) (I.up p) buf'
            (I.up_wire p ++ [(I.is_tls_up (I.up p), data)]) (I.peer p).
  Definition is_running (m : I.hmode) : bool := match m with I.Running => true | _ => false end.
  Definition nonnil {A} (l : list A) : bool := match l with [] => false | _ => true end.

  Lemma istep_cw h o : I.mode h <> I.Closed -> I.cl (I.ps h) <> I.ClDead ->
    istep h (I.ClientWrite o) =
    match I.conn_flush (I.max_sendbuf_size fl) (I.cl_buf (I.ps h)) o with
    | I.FsNoop => h
    | I.FsSent data buf' =>
        if is_running (I.mode h) || nonnil buf' then I.with_ps h (sent_cl (I.ps h) data buf')
        else I.with_mode (I.with_ps h (sent_cl (I.ps h) data buf')) I.Closed
    | I.FsRaise e => if I.is_SSLWantWriteError e then h
                     else if I.is_OSError e then I.with_mode h I.Closed else I.escape PS RS h e
    end.
  Proof.
    intros Hm Hc. unfold I.step.
    destruct (I.mode h) eqn:Em; try contradiction;
      (destruct (I.cl (I.ps h)) eqn:Ec; try contradiction);
      (destruct (I.conn_flush _ _ o) as [|data buf'|e]; try reflexivity);
      destruct buf'; rewrite <- Ec; reflexivity.
  Qed.

  Ltac ev_simpl :=
    cbn [hev_of idle_ev H.now H.c_r H.c_w H.u_r H.u_w H.c_send H.u_send H.c_recv H.u_recv H.req H.cdata
         H.i_cr H.i_cw H.i_ur H.i_uw andb].

  Lemma has_buffer_mk buf cl sn : Cn.has_buffer (Cn.mkConn buf cl sn) = nonnil buf.
  Proof. destruct buf; reflexivity. Qed.

  Lemma rel_not_closed h s : rel h s -> I.mode h <> I.Closed.
  Proof. intros [_ _ Hm _ _ _ _ _] X. rewrite X in Hm. exact Hm. Qed.

  (* the client socket is writable: one flush *)
  Lemma cw_sim t h s o :
    rel h s -> live h -> (forall e, o = I.SendRaise e -> I.is_OSError e = true) ->
    out_rel s (istep h (I.ClientWrite o)) (H.step hc s (hev_of t h (I.ClientWrite o))).
  Proof.
    intros Hr [Hcl _] Hos. pose proof Hr as [[cl Hwk] Hu Hm Hp He Hc Hpl Hg].
    rewrite (istep_cw h o (rel_not_closed _ _ Hr) Hcl).
    unfold H.step, H.select. rewrite (get_events_proxy s Hpl). ev_simpl.
    set (e := H.mkEvent _ _ _ _ _ _ _ _ _ _ _).
    rewrite handle_events_split.
    unfold H.handle_writables. change (H.c_w e) with (Cn.has_buffer (H.work s)).
    rewrite Hwk, has_buffer_mk.
    destruct (I.cl_buf (I.ps h)) as [|mv rest] eqn:Eb.
    { (* nothing to flush *)
      cbn [nonnil andb I.conn_flush].
      destruct (idle_sim e h s Hr (or_introl eq_refl) (or_introl (conj eq_refl eq_refl))) as (s' & Es & Hv). rewrite Es.
      unfold out_rel. cbn [fst snd]. split; [eapply rel_view; eassumption|].
      unfold hv in Hv. injection Hv as _ _ _ _ _ _ _ V _. exact V. }
    cbn [nonnil andb].
    unfold H.base_handle_writables. hsimpl. change (H.c_w e) with (Cn.has_buffer (H.work s)).
    rewrite Hwk, has_buffer_mk. cbn [nonnil andb]. change (H.c_send e) with (outcome_of o). rewrite Hmax.
    pose proof (conn_flush_eq (I.max_sendbuf_size fl) (mv :: rest) cl (I.wire_bytes (I.cl_wire (I.ps h))) o Hos) as Hf.
    set (sW := fun c' => H.set_work c' (H.note_client_io (H.now e) (H.set_last_activity (H.now e) s))).
    assert (HsW : forall c', hv (sW c') = (c', H.upstream s, H.must_flush s, H.writes_teared s, H.reads_teared s,
                                          H.req_complete s, H.plugin s, H.is_tunnel s, H.pipeline_upgrade s)) by reflexivity.
    (* the flush changed nothing (would block / want write): everything else is idle *)
    assert (Hsame : out_rel s h (if false then (H.set_writes_teared true (sW (H.work s)), H.Teardown)
                                 else he_after_w hc e (sW (H.work s)))).
    { assert (Hr1 : rel h (sW (H.work s))) by (eapply rel_view; [|exact Hr]; rewrite HsW; reflexivity).
      destruct (idle_sim e h _ Hr1 (or_introl eq_refl) (or_introl (conj eq_refl eq_refl))) as (s' & Es & Hv). rewrite Es.
      unfold out_rel. cbn [fst snd]. split; [eapply rel_view; eassumption|].
      rewrite HsW in Hv. unfold hv in Hv. injection Hv as _ _ _ _ _ _ _ V _. exact V. }
    rewrite Hwk in Hsame.
    destruct (I.conn_flush (I.max_sendbuf_size fl) (mv :: rest) o) as [|data buf'|e0] eqn:Ef;
      destruct (Cn.flush (I.max_sendbuf_size fl) (outcome_of o) _) as [c' r] eqn:Ec.
    - (* would block *)
      destruct r; try contradiction. subst c'. hsimpl. rewrite has_buffer_mk. cbn [nonnil negb].
      rewrite Bool.andb_false_r. exact Hsame.
    - (* some bytes were taken *)
      destruct r; try contradiction. subst c'. hsimpl. rewrite has_buffer_mk.
      set (c' := Cn.mkConn buf' cl (I.wire_bytes (I.cl_wire (I.ps h)) ++ data)).
      fold (sW c').
      assert (Hwr : work_rel (sent_cl (I.ps h) data buf') c').
      { exists cl. unfold c', sent_cl. cbn [I.cl_buf I.cl_wire]. rewrite wire_bytes_snoc. reflexivity. }
      destruct buf' as [|b0 bt]; cbn [nonnil negb].
      + (* the buffer is drained *)
        rewrite Bool.andb_true_r, Bool.orb_false_r.
        destruct (H.must_flush s) eqn:Emf.
        * (* must_flush_before_shutdown: teardown *)
          assert (Enr : is_running (I.mode h) = false).
          { destruct (I.mode h); try reflexivity. destruct Hm as (M1 & _). congruence. }
          rewrite Enr. unfold out_rel. cbn [fst snd I.mode I.with_mode I.with_ps I.escaped I.ps]. hsimpl.
          split; [reflexivity|]. split; [exact He|exact Hwr].
        * cbv beta iota.
          rewrite (after_w_widle hc e (sW c')) by (try reflexivity; exact Hpl).
          change (H.writes_teared (sW c')) with (H.writes_teared s).
          change (Cn.has_buffer (H.work (sW c'))) with (Cn.has_buffer c'). unfold c' at 1. rewrite has_buffer_mk. cbn [nonnil negb].
          destruct (I.mode h) eqn:Em; unfold mode_rel in Hm; cbn [is_running].
          -- (* Running: stays *)
             destruct Hm as (M1 & M2 & M3). rewrite M3.
             rewrite reads_idle by (try reflexivity; exact Hpl). unfold sW. hsimpl. rewrite M2. unfold final. hsimpl. cbn [andb].
             unfold out_rel. cbn [fst snd]. hsimpl. split; [|reflexivity].
             split; hsimpl; cbn [I.ps I.with_ps I.mode I.escaped]; try assumption.
             all: try (unfold up_rel, sent_cl in *; cbn [I.up I.up_buf I.up_wire]; exact Hu).
             all: try (rewrite Em; unfold mode_rel; hsimpl; auto; fail).
             all: try (rewrite Em; intros X; contradiction).
          -- destruct Hm as (M1 & _). congruence.
          -- (* ReadsTeared: drained -> torn down *)
             destruct Hm as (M2 & M3). rewrite M3.
             rewrite reads_idle by (try reflexivity; exact Hpl). unfold sW. hsimpl. rewrite M2. unfold final. hsimpl.
             rewrite M2. change (Cn.has_buffer c') with false. cbn [andb negb].
             unfold out_rel. cbn [fst snd I.mode I.with_mode I.with_ps I.escaped I.ps]. hsimpl.
             split; [reflexivity|]. split; [exact He|exact Hwr].
          -- (* WritesTeared: drained -> torn down *)
             destruct Hm as (M2 & M3). rewrite M3.
             unfold out_rel. cbn [fst snd I.mode I.with_mode I.with_ps I.escaped I.ps]. hsimpl.
             split; [reflexivity|]. split; [exact He|exact Hwr].
          -- contradiction.
      + (* bytes remain queued *)
        rewrite Bool.andb_false_r, Bool.orb_true_r. cbv beta iota.
        set (h' := I.with_ps h (sent_cl (I.ps h) data (b0 :: bt))).
        assert (Hr1 : rel h' (sW c')).
        { split; rewrite ?HsW; hsimpl; unfold h'; cbn [I.ps I.with_ps I.mode I.escaped]; try assumption.
          all: try (unfold up_rel, sent_cl in *; cbn [I.up I.up_buf I.up_wire]; exact Hu).
          all: try (intros _; unfold sent_cl; cbn [I.cl_buf]; discriminate). }
        destruct (idle_sim e h' _ Hr1 (or_introl eq_refl) (or_introl (conj eq_refl eq_refl))) as (s' & Es & Hv). rewrite Es.
        unfold out_rel. cbn [fst snd]. split; [eapply rel_view; eassumption|].
        rewrite HsW in Hv. unfold hv in Hv. injection Hv as _ _ _ _ _ _ _ V _. exact V.
    - (* send() raised *)
      destruct Hf as [-> Hf].
      destruct (I.is_SSLWantWriteError e0).
      + subst r. hsimpl. rewrite has_buffer_mk. cbn [nonnil negb]. rewrite Bool.andb_false_r. exact Hsame.
      + destruct Hf as [Hrr Hose]. rewrite Hose.
        unfold out_rel. destruct Hrr as [-> | ->]; cbn [fst snd I.mode I.with_mode I.escaped I.ps]; hsimpl;
          (split; [reflexivity|]); (split; [exact He|]); unfold work_rel; rewrite Hwk, Eb; exists cl; reflexivity.
  Qed.

  (* ---------------------------------------------------------------- the upstream socket is writable *)
  Definition is_wt (m : I.hmode) : bool := match m with I.WritesTeared => true | _ => false end.

  Lemma istep_uw h o : I.mode h <> I.Closed ->
    istep h (I.UpstreamWrite o) =
    if is_wt (I.mode h) || negb (I.up_fd_valid (I.up (I.ps h))) then h else
    match I.conn_flush (I.max_sendbuf_size fl) (I.up_buf (I.ps h)) o with
    | I.FsNoop => h
    | I.FsSent data buf' => I.with_ps h (sent_up (I.ps h) data buf')
    | I.FsRaise e => if I.is_SSLWantWriteError e then h
                     else if I.is_OSError e then I.teared PS RS h I.WritesTeared else I.escape PS RS h e
    end.
  Proof.
    intros Hm. unfold I.step.
    destruct (I.mode h) eqn:Em; try contradiction; cbn [is_wt orb]; try reflexivity;
      (destruct (I.up_fd_valid (I.up (I.ps h))); cbn [negb]; [|reflexivity]);
      (destruct (I.conn_flush _ _ o) as [|data buf'|e]; reflexivity).
  Qed.

  Lemma uw_sim t h s o :
    rel h s -> live h -> (forall e, o = I.SendRaise e -> I.is_OSError e = true) ->
    out_rel s (istep h (I.UpstreamWrite o)) (H.step hc s (hev_of t h (I.UpstreamWrite o))).
  Proof.
    intros Hr [_ Hup] Hos. pose proof Hr as [[cl Hwk] Hu Hm Hp He Hc Hpl Hg].
    rewrite (istep_uw h o (rel_not_closed _ _ Hr)).
    unfold H.step, H.select. rewrite (get_events_proxy s Hpl). ev_simpl.
    set (e := H.mkEvent _ _ _ _ _ _ _ _ _ _ _).
    rewrite handle_events_split, (hw_idle hc e s eq_refl). cbv beta iota.
    (* what happens when nothing is done *)
    assert (Hidle : (H.u_w e = false \/ I.mode h = I.WritesTeared) -> out_rel s h (he_after_w hc e s)).
    { intros Hw. destruct (idle_sim e h s Hr Hw (or_introl (conj eq_refl eq_refl))) as (s' & Es & Hv). rewrite Es.
      unfold out_rel. cbn [fst snd]. split; [eapply rel_view; eassumption|].
      unfold hv in Hv. injection Hv as _ _ _ _ _ _ _ V _. exact V. }
    destruct (is_wt (I.mode h)) eqn:Ewt; cbn [orb].
    { apply Hidle. right. destruct (I.mode h); try discriminate Ewt. reflexivity. }
    unfold up_rel in Hu.
    destruct (I.up (I.ps h)) eqn:Eup; cbn [I.up_fd_valid negb]; try contradiction.
    { (* no upstream *) apply Hidle. left. unfold e. cbn [H.u_w]. rewrite Hu. reflexivity. }
    all: destruct Hu as [ucl Hu].
    all: destruct (I.up_buf (I.ps h)) as [|mv rest] eqn:Eb;
      [ cbn [I.conn_flush]; apply Hidle; left; unfold e; cbn [H.u_w]; rewrite Hu; reflexivity |].
    all: assert (Huw : H.u_w e = true) by (unfold e; cbn [H.u_w]; rewrite Hu; reflexivity).
    all: assert (Hwf : H.writes_teared s = false)
      by (destruct (I.mode h); unfold mode_rel in Hm; try discriminate Ewt; try contradiction; intuition).
    all: unfold he_after_w; rewrite Hwf, Hpl; unfold H.write_to_descriptors; rewrite Hpl, Hu, Huw;
      rewrite has_buffer_mk; cbn [nonnil andb]; change (H.u_send e) with (outcome_of o); rewrite Hmax.
    all: pose proof (conn_flush_eq (I.max_sendbuf_size fl) (mv :: rest) ucl (I.wire_bytes (I.up_wire (I.ps h))) o Hos) as Hf.
    all: destruct (I.conn_flush (I.max_sendbuf_size fl) (mv :: rest) o) as [|data buf'|e0] eqn:Ef;
      destruct (Cn.flush (I.max_sendbuf_size fl) (outcome_of o) _) as [c' r] eqn:Ec.
    (* a flush that returned: the upstream connection becomes c' *)
    all: assert (Hok : forall h' c', rel h' (H.set_writes_teared false (H.set_upstream (Some c') s)) ->
           out_rel s h' (if false && negb (Cn.has_buffer (H.work (H.set_writes_teared false (H.set_upstream (Some c') s))))
                         then (H.set_writes_teared false (H.set_upstream (Some c') s), H.Teardown)
                         else he_reads hc e (H.set_writes_teared false (H.set_upstream (Some c') s)))).
    all: try (intros h' c'' Hr'; cbn [andb];
              destruct (reads_idle_sim e h' _ Hr' eq_refl eq_refl) as (s' & Es & Hv); rewrite Es;
              unfold out_rel; cbn [fst snd]; split; [eapply rel_view; eassumption|];
              unfold hv in Hv; injection Hv as _ _ _ _ _ _ _ V _; exact V).
    (* the relation after such a flush *)
    all: assert (Hrel : forall h' buf' wire', I.mode h' = I.mode h -> I.escaped h' = None ->
           I.cl_buf (I.ps h') = I.cl_buf (I.ps h) -> I.cl_wire (I.ps h') = I.cl_wire (I.ps h) ->
           I.up (I.ps h') = I.up (I.ps h) -> I.up_buf (I.ps h') = buf' -> I.wire_bytes (I.up_wire (I.ps h')) = wire' ->
           rel h' (H.set_writes_teared false (H.set_upstream (Some (Cn.mkConn buf' ucl wire')) s))).
    all: try (intros h' buf'' wire' E1 E2 E3 E4 E5 E6 E7; split; hsimpl; try assumption;
              [ exists cl; rewrite Hwk, E3, E4; reflexivity
              | unfold up_rel; rewrite E5, Eup, E6, E7; exists ucl; reflexivity
              | rewrite E1; destruct (I.mode h); unfold mode_rel in *; hsimpl; try discriminate Ewt; intuition
              | rewrite E1, E3; exact Hp ]).
    all: try (destruct r; try contradiction; subst c').
    (* FsNoop *)
    1,4: apply (Hok h (Cn.mkConn (mv :: rest) ucl (I.wire_bytes (I.up_wire (I.ps h))))); rewrite <- Eb; apply Hrel; reflexivity || exact He.
    (* FsSent *)
    1,3: apply (Hok (I.with_ps h (sent_up (I.ps h) data buf')) (Cn.mkConn buf' ucl (I.wire_bytes (I.up_wire (I.ps h)) ++ data)));
         apply Hrel; try reflexivity; try exact He;
         unfold sent_up; cbn [I.ps I.with_ps I.up_wire]; apply wire_bytes_snoc.
    (* FsRaise *)
    all: destruct Hf as [-> Hf]; destruct (I.is_SSLWantWriteError e0);
      [ subst r; cbv beta iota; apply (Hok h (Cn.mkConn (mv :: rest) ucl (I.wire_bytes (I.up_wire (I.ps h))))); rewrite <- Eb; apply Hrel; reflexivity || exact He |].
    all: destruct Hf as [Hrr Hose]; rewrite Hose.
    all: assert (Er : match r with Conn.Flushed _ => (H.set_upstream (Some (Cn.mkConn (mv :: rest) ucl (I.wire_bytes (I.up_wire (I.ps h))))) s, false)
                               | _ => (s, true) end = (s, true)) by (destruct Hrr as [-> | ->]; reflexivity).
    all: rewrite Er; cbv beta iota; hsimpl; rewrite Hwk, has_buffer_mk; unfold I.teared.
    all: destruct (I.cl_buf (I.ps h)) as [|c0 ct] eqn:Ecb; cbn [nonnil negb andb].
    (* client buffer empty: torn down at once *)
    1,3: unfold out_rel; cbn [fst snd I.mode I.with_mode I.escaped I.ps]; hsimpl;
         (split; [reflexivity|]); (split; [exact He|]); unfold work_rel; rewrite Hwk, Ecb; exists cl; reflexivity.
    (* output pending for the client: writes_teared and reads_teared, wait for the flush *)
    all: set (s2 := H.set_reads_teared true (H.set_writes_teared true s)).
    all: assert (Hr2 : rel (I.with_mode h I.WritesTeared) s2)
      by (split; unfold s2; hsimpl; cbn [I.ps I.with_mode I.mode I.escaped]; try assumption;
          solve [ exists cl; rewrite Hwk, Ecb; reflexivity
                | unfold up_rel; rewrite Eup, Eb; exists ucl; exact Hu
                | unfold mode_rel; hsimpl; auto
                | rewrite Ecb; discriminate ]).
    all: destruct (reads_idle_sim e _ _ Hr2 eq_refl eq_refl) as (s' & Es & Hv); rewrite Es;
         unfold out_rel; cbn [fst snd]; (split; [eapply rel_view; eassumption|]);
         unfold hv in Hv; injection Hv as _ _ _ _ _ _ _ V _; exact V.
  Qed.

  (* ---------------------------------------------------------------- the client socket is readable *)
  Lemma queue_all_mk outs : forall b cl sn, Cn.queue_all outs (Cn.mkConn b cl sn) = Cn.mkConn (b ++ outs) cl sn.
  Proof.
    induction outs as [|x outs IH]; intros b cl sn; cbn [Cn.queue_all]; [rewrite app_nil_r; reflexivity|].
    unfold Cn.queue at 1. cbn [Cn.buffer Cn.closed Cn.sent]. rewrite IH, <- app_assoc. reflexivity.
  Qed.

  Definition queued_up (p : I.pst) (outs : list bytes) : I.pst :=
    I.mkPst (I.tr p) (I.fs p) (I.cl p) (I.cl_buf p) (I.cl_wire p) (I.up p) (I.up_buf p ++ outs) (I.up_wire p) (I.peer p).
  Definition queued_cl (p : I.pst) (raw : bytes) : I.pst :=
    I.mkPst (I.tr p) (I.fs p) (I.cl p) (I.cl_buf p ++ [raw]) (I.cl_wire p) (I.up p) (I.up_buf p) (I.up_wire p) (I.peer p).

  Lemma cd_sim t h s a raw :
    rel h s -> raw <> [] -> H.is_tunnel s = negb (I.tls_intercept_enabled_ fl a) ->
    (I.tls_intercept_enabled_ fl a = true -> pipe_wf (pipeline_step (I.pipe h) raw)) ->
    out_rel s (istep h (I.ClientData a raw)) (H.step hc s (hev_of t h (I.ClientData a raw))).
  Proof.
    intros Hr Hraw Htun Hpw. pose proof Hr as [[cl Hwk] Hu Hm Hp He Hc Hpl Hg].
    unfold H.step, H.select. rewrite (get_events_proxy s Hpl). ev_simpl.
    set (e := H.mkEvent _ _ _ _ _ _ _ _ _ _ _).
    rewrite handle_events_split, (hw_idle hc e s eq_refl). cbv beta iota.
    assert (Hidle : (H.c_r e = false \/ I.mode h = I.ReadsTeared \/ I.mode h = I.WritesTeared) ->
                    out_rel s h (he_after_w hc e s)).
    { intros Hx.
      assert (Hx' : (H.c_r e = false /\ H.u_r e = false) \/ I.mode h = I.ReadsTeared \/ I.mode h = I.WritesTeared)
        by (destruct Hx as [X|X]; [left; split; [exact X|reflexivity]|right; exact X]).
      destruct (idle_sim e h s Hr (or_introl eq_refl) Hx') as (s' & Es & Hv). rewrite Es.
      unfold out_rel. cbn [fst snd]. split; [eapply rel_view; eassumption|].
      unfold hv in Hv. injection Hv as _ _ _ _ _ _ _ V _. exact V. }
    unfold I.step.
    destruct (I.mode h) eqn:Em; unfold mode_rel in Hm; try contradiction.
    2:{ apply Hidle. left. unfold e. cbn [H.c_r]. destruct Hm as (M1 & _). rewrite M1. reflexivity. }
    2:{ apply Hidle. right. left. reflexivity. }
    2:{ apply Hidle. right. right. reflexivity. }
    (* Running *)
    destruct Hm as (M1 & M2 & M3).
    destruct raw as [|x r]; [contradiction|].
    rewrite (after_w_widle hc e s Hpl eq_refl), M3.
    unfold he_reads. hsimpl. rewrite M2.
    unfold H.handle_readables. change (H.c_r e) with (negb (H.must_flush s)). rewrite M1. cbn [negb].
    unfold H.base_handle_readables. change (H.c_r e) with (negb (H.must_flush s)). rewrite M1. cbn [negb].
    change (H.c_recv e) with (H.RData (x :: r)). cbv beta iota.
    unfold H.handle_data. hsimpl. rewrite Hc. cbn [negb].
    unfold H.on_client_data. hsimpl. rewrite Hpl.
    unfold I.on_client_data. unfold up_rel in Hu.
    assert (Hrelq : forall h' s1 outs ucl,
              I.ps h' = queued_up (I.ps h) outs -> I.mode h' = I.Running -> I.escaped h' = None ->
              I.up (I.ps h) <> I.UpNone ->
              hv s1 = (H.work s, Some (Cn.mkConn (I.up_buf (I.ps h) ++ outs) ucl (I.wire_bytes (I.up_wire (I.ps h)))),
                       false, false, false, true, H.PProxy, H.is_tunnel s, false) ->
              rel h' s1 /\ H.is_tunnel s1 = H.is_tunnel s).
    { intros h' s1 outs ucl E1 E2 E3 E4 Hv. unfold hv in Hv. injection Hv as V0 V1 V2 V3 V4 V5 V6 V7 V8.
      split; [|exact V7]. split; rewrite ?E1, ?E2, ?E3; unfold queued_up; cbn [I.cl_buf I.cl_wire I.up I.up_buf I.up_wire];
        try assumption; try reflexivity.
      all: try solve [ exists cl; rewrite V0; exact Hwk
                     | unfold up_rel; cbn [I.up I.up_buf I.up_wire]; destruct (I.up (I.ps h)); try contradiction; exists ucl; exact V1
                     | unfold mode_rel; auto
                     | intros X; contradiction ]. }
    destruct (I.up (I.ps h)) eqn:Eup.
    - (* no upstream connection *)
      rewrite Hu. cbv beta iota. hsimpl. rewrite Hpl. cbv beta iota.
      rewrite (rfd_idle hc e _ eq_refl). cbv beta iota. unfold final. hsimpl. cbn [andb].
      unfold out_rel. cbn [fst snd]. hsimpl. split; [|reflexivity].
      eapply rel_view; [|exact Hr]. unfold hv. hsimpl. rewrite M2, M3. reflexivity.
    - destruct Hu as [ucl Hu]. rewrite Hu, Htun.
      destruct (I.tls_intercept_enabled_ fl a) eqn:Een; cbn [negb].
      + rewrite Hg. change (H.cdata e) with (cdata_of h a (x :: r)). unfold cdata_of. rewrite Een.
        specialize (Hpw eq_refl). destruct (pipeline_step (I.pipe h) (x :: r)) as [[p' outs]|[outs|e1]]; cbn [pipe_wf] in Hpw.
        * cbv beta iota. hsimpl. rewrite Hpl. cbv beta iota.
          rewrite (rfd_idle hc e _ eq_refl). cbv beta iota. unfold final. hsimpl. cbn [andb].
          unfold out_rel. cbn [fst snd].
          apply (Hrelq _ _ outs ucl); try reflexivity; try assumption; try discriminate.
          unfold hv. hsimpl. rewrite queue_all_mk, Hc, Hpl, M1. reflexivity.
        * subst outs. hsimpl. rewrite Hwk, has_buffer_mk, app_nil_r.
          unfold I.after_handle_data_true, I.set_up_buf, I.with_mode, I.with_ps. cbn [fst I.cl_buf I.ps I.mode I.escaped I.pipe I.resp].
          destruct (I.cl_buf (I.ps h)) as [|b0 bs0] eqn:Ecb; cbn [nonnil]; cbv beta iota.
          -- unfold final. hsimpl. rewrite Hwk, has_buffer_mk. cbn [nonnil andb negb]. unfold out_rel. cbn [fst snd I.mode I.escaped I.ps].
             hsimpl. split; [reflexivity|]. split; [exact He|]. exists cl. rewrite Hwk. reflexivity.
          -- hsimpl. rewrite Hpl. cbv beta iota. rewrite (rfd_idle hc e _ eq_refl). cbv beta iota. unfold final. hsimpl. cbn [andb].
             unfold out_rel. cbn [fst snd]. hsimpl. split; [|reflexivity].
             split; cbn [I.ps I.mode I.escaped I.cl_buf I.cl_wire I.up I.up_buf I.up_wire]; hsimpl.
             ++ exists cl. exact Hwk.
             ++ unfold up_rel. cbn [I.up I.up_buf I.up_wire]. rewrite Eup. exists ucl. exact Hu.
             ++ unfold mode_rel. hsimpl. auto.
             ++ intros _. discriminate.
             ++ exact He.
             ++ exact Hc.
             ++ exact Hpl.
             ++ exact Hg.
        * rewrite (not_os_not_wantread _ Hpw), Hpw. cbv beta iota. unfold out_rel, I.escape. cbn [fst snd I.mode I.escaped]. split; [reflexivity|discriminate].
      + cbv beta iota. hsimpl. rewrite Hpl. cbv beta iota.
        rewrite (rfd_idle hc e _ eq_refl). cbv beta iota. unfold final. hsimpl. cbn [andb].
        unfold out_rel. cbn [fst snd].
        apply (Hrelq _ _ [x :: r] ucl); try reflexivity; try assumption; try discriminate.
        unfold hv. hsimpl. unfold Cn.queue. cbn [Cn.buffer Cn.closed Cn.sent]. rewrite Hc, Hpl, M1, Hg. reflexivity.
    - destruct Hu as [ucl Hu]. rewrite Hu, Htun.
      destruct (I.tls_intercept_enabled_ fl a) eqn:Een; cbn [negb].
      + rewrite Hg. change (H.cdata e) with (cdata_of h a (x :: r)). unfold cdata_of. rewrite Een.
        specialize (Hpw eq_refl). destruct (pipeline_step (I.pipe h) (x :: r)) as [[p' outs]|[outs|e1]]; cbn [pipe_wf] in Hpw.
        * cbv beta iota. hsimpl. rewrite Hpl. cbv beta iota.
          rewrite (rfd_idle hc e _ eq_refl). cbv beta iota. unfold final. hsimpl. cbn [andb].
          unfold out_rel. cbn [fst snd].
          apply (Hrelq _ _ outs ucl); try reflexivity; try assumption; try discriminate.
          unfold hv. hsimpl. rewrite queue_all_mk, Hc, Hpl, M1. reflexivity.
        * subst outs. hsimpl. rewrite Hwk, has_buffer_mk, app_nil_r.
          unfold I.after_handle_data_true, I.set_up_buf, I.with_mode, I.with_ps. cbn [fst I.cl_buf I.ps I.mode I.escaped I.pipe I.resp].
          destruct (I.cl_buf (I.ps h)) as [|b0 bs0] eqn:Ecb; cbn [nonnil]; cbv beta iota.
          -- unfold final. hsimpl. rewrite Hwk, has_buffer_mk. cbn [nonnil andb negb]. unfold out_rel. cbn [fst snd I.mode I.escaped I.ps].
             hsimpl. split; [reflexivity|]. split; [exact He|]. exists cl. rewrite Hwk. reflexivity.
          -- hsimpl. rewrite Hpl. cbv beta iota. rewrite (rfd_idle hc e _ eq_refl). cbv beta iota. unfold final. hsimpl. cbn [andb].
             unfold out_rel. cbn [fst snd]. hsimpl. split; [|reflexivity].
             split; cbn [I.ps I.mode I.escaped I.cl_buf I.cl_wire I.up I.up_buf I.up_wire]; hsimpl.
             ++ exists cl. exact Hwk.
             ++ unfold up_rel. cbn [I.up I.up_buf I.up_wire]. rewrite Eup. exists ucl. exact Hu.
             ++ unfold mode_rel. hsimpl. auto.
             ++ intros _. discriminate.
             ++ exact He.
             ++ exact Hc.
             ++ exact Hpl.
             ++ exact Hg.
        * rewrite (not_os_not_wantread _ Hpw), Hpw. cbv beta iota. unfold out_rel, I.escape. cbn [fst snd I.mode I.escaped]. split; [reflexivity|discriminate].
      + cbv beta iota. hsimpl. rewrite Hpl. cbv beta iota.
        rewrite (rfd_idle hc e _ eq_refl). cbv beta iota. unfold final. hsimpl. cbn [andb].
        unfold out_rel. cbn [fst snd].
        apply (Hrelq _ _ [x :: r] ucl); try reflexivity; try assumption; try discriminate.
        unfold hv. hsimpl. unfold Cn.queue. cbn [Cn.buffer Cn.closed Cn.sent]. rewrite Hc, Hpl, M1, Hg. reflexivity.
    - destruct Hu as [ucl Hu]. rewrite Hu, Htun.
      destruct (I.tls_intercept_enabled_ fl a) eqn:Een; cbn [negb].
      + rewrite Hg. change (H.cdata e) with (cdata_of h a (x :: r)). unfold cdata_of. rewrite Een.
        specialize (Hpw eq_refl). destruct (pipeline_step (I.pipe h) (x :: r)) as [[p' outs]|[outs|e1]]; cbn [pipe_wf] in Hpw.
        * cbv beta iota. hsimpl. rewrite Hpl. cbv beta iota.
          rewrite (rfd_idle hc e _ eq_refl). cbv beta iota. unfold final. hsimpl. cbn [andb].
          unfold out_rel. cbn [fst snd].
          apply (Hrelq _ _ outs ucl); try reflexivity; try assumption; try discriminate.
          unfold hv. hsimpl. rewrite queue_all_mk, Hc, Hpl, M1. reflexivity.
        * subst outs. hsimpl. rewrite Hwk, has_buffer_mk, app_nil_r.
          unfold I.after_handle_data_true, I.set_up_buf, I.with_mode, I.with_ps. cbn [fst I.cl_buf I.ps I.mode I.escaped I.pipe I.resp].
          destruct (I.cl_buf (I.ps h)) as [|b0 bs0] eqn:Ecb; cbn [nonnil]; cbv beta iota.
          -- unfold final. hsimpl. rewrite Hwk, has_buffer_mk. cbn [nonnil andb negb]. unfold out_rel. cbn [fst snd I.mode I.escaped I.ps].
             hsimpl. split; [reflexivity|]. split; [exact He|]. exists cl. rewrite Hwk. reflexivity.
          -- hsimpl. rewrite Hpl. cbv beta iota. rewrite (rfd_idle hc e _ eq_refl). cbv beta iota. unfold final. hsimpl. cbn [andb].
             unfold out_rel. cbn [fst snd]. hsimpl. split; [|reflexivity].
             split; cbn [I.ps I.mode I.escaped I.cl_buf I.cl_wire I.up I.up_buf I.up_wire]; hsimpl.
             ++ exists cl. exact Hwk.
             ++ unfold up_rel. cbn [I.up I.up_buf I.up_wire]. rewrite Eup. exists ucl. exact Hu.
             ++ unfold mode_rel. hsimpl. auto.
             ++ intros _. discriminate.
             ++ exact He.
             ++ exact Hc.
             ++ exact Hpl.
             ++ exact Hg.
        * rewrite (not_os_not_wantread _ Hpw), Hpw. cbv beta iota. unfold out_rel, I.escape. cbn [fst snd I.mode I.escaped]. split; [reflexivity|discriminate].
      + cbv beta iota. hsimpl. rewrite Hpl. cbv beta iota.
        rewrite (rfd_idle hc e _ eq_refl). cbv beta iota. unfold final. hsimpl. cbn [andb].
        unfold out_rel. cbn [fst snd].
        apply (Hrelq _ _ [x :: r] ucl); try reflexivity; try assumption; try discriminate.
        unfold hv. hsimpl. unfold Cn.queue. cbn [Cn.buffer Cn.closed Cn.sent]. rewrite Hc, Hpl, M1, Hg. reflexivity.
  Qed.

  (* recv() on the client socket fails *)
  Definition recv_failed (rr : H.recv_res) : Prop :=
    rr = H.RReset \/ rr = H.RTimeout true \/ rr = H.ROsErr \/ rr = H.REof.
  Lemma recv_exn_failed e0 : recv_failed (recv_exn e0).
  Proof. unfold recv_failed. destruct e0; cbn [recv_exn]; auto. Qed.

  Lemma hr_fail e s rr : H.c_r e = true -> H.c_recv e = rr -> recv_failed rr ->
    exists s', H.handle_readables hc e s = (s', Some true) /\ hv s' = hv s.
  Proof.
    intros Hc Hrv Hf. unfold H.handle_readables, H.base_handle_readables. rewrite Hc, Hrv.
    destruct Hf as [-> | [-> | [-> | ->]]]; eexists; (split; [reflexivity|]); reflexivity.
  Qed.

  Lemma rfd_fail e s u rr : H.plugin s = H.PProxy -> H.upstream s = Some u -> H.u_r e = true -> H.u_recv e = rr ->
    recv_failed rr -> H.read_from_descriptors hc e s = (s, Some true).
  Proof.
    intros Hp Hu Hr Hrv Hf. unfold H.read_from_descriptors. rewrite Hp, Hu, Hr, Hrv.
    destruct Hf as [-> | [-> | [-> | ->]]]; reflexivity.
  Qed.

  (* reads are torn down in state s1 (whose flags are those of Running or MustFlush): what the rest of
     handle_events does, against Intercept's [teared _ ReadsTeared] *)
  Lemma teared_sim h s s1 :
    rel h s -> (I.mode h = I.Running \/ I.mode h = I.MustFlush) -> hv s1 = hv s ->
    out_rel s (I.teared PS RS h I.ReadsTeared) (final (H.set_reads_teared true s1)).
  Proof.
    intros Hr Hmode Hv. pose proof Hr as [[cl Hwk] Hu Hm Hp He Hc Hpl Hg].
    unfold hv in Hv. injection Hv as V0 V1 V2 V3 V4 V5 V6 V7 V8.
    unfold final, I.teared. hsimpl. rewrite V0, Hwk, has_buffer_mk.
    assert (Hwt : H.writes_teared s = false) by (destruct Hmode as [X|X]; rewrite X in Hm; unfold mode_rel in Hm; intuition).
    destruct (I.cl_buf (I.ps h)) as [|c0 ct] eqn:Ecb; cbn [nonnil negb andb]; unfold out_rel; cbn [fst snd].
    - cbn [I.mode I.with_mode I.escaped I.ps]. split; [reflexivity|]. split; [exact He|].
      hsimpl. unfold work_rel. rewrite V0, Hwk, Ecb. exists cl. reflexivity.
    - hsimpl. split; [|exact V7].
      split; hsimpl; cbn [I.ps I.with_mode I.mode I.escaped]; try assumption; try congruence.
      all: try solve [ exists cl; rewrite V0, Hwk, Ecb; reflexivity
                     | rewrite V1; exact Hu
                     | unfold mode_rel; hsimpl; split; congruence
                     | rewrite Ecb; discriminate ].
  Qed.

  Lemma crr_sim t h s e0 :
    rel h s -> live h -> I.is_OSError e0 = true ->
    out_rel s (istep h (I.ClientRecvRaise e0)) (H.step hc s (hev_of t h (I.ClientRecvRaise e0))).
  Proof.
    intros Hr [Hcl _] Hos. pose proof Hr as [[cl Hwk] Hu Hm Hp He Hc Hpl Hg].
    assert (Hstep : istep h (I.ClientRecvRaise e0) =
                    if is_running (I.mode h)
                    then (if I.is_SSLWantReadError e0 then h else I.teared PS RS h I.ReadsTeared) else h).
    { unfold I.step. destruct (I.mode h); cbn [is_running]; try reflexivity.
      destruct (I.cl (I.ps h)); try contradiction; rewrite Hos; reflexivity. }
    rewrite Hstep. clear Hstep.
    unfold H.step, H.select. rewrite (get_events_proxy s Hpl).
    assert (Hidle : forall e, H.c_w e = false -> H.u_w e = false -> H.u_r e = false ->
              (H.c_r e = false \/ I.mode h = I.ReadsTeared \/ I.mode h = I.WritesTeared) ->
              out_rel s h (H.handle_events hc e s)).
    { intros e E1 E2 E3 Hx. rewrite handle_events_split, (hw_idle hc e s E1). cbv beta iota.
      assert (Hx' : (H.c_r e = false /\ H.u_r e = false) \/ I.mode h = I.ReadsTeared \/ I.mode h = I.WritesTeared)
        by (destruct Hx as [X|X]; [left; split; [exact X|exact E3]|right; exact X]).
      destruct (idle_sim e h s Hr (or_introl E2) Hx') as (s' & Es & Hv). rewrite Es.
      unfold out_rel. cbn [fst snd]. split; [eapply rel_view; eassumption|].
      unfold hv in Hv. injection Hv as _ _ _ _ _ _ _ V _. exact V. }
    cbn [hev_of]. destruct (I.is_SSLWantReadError e0) eqn:Ewr.
    { (* try again later *)
      ev_simpl. destruct (is_running (I.mode h)); apply Hidle; try reflexivity; left; reflexivity. }
    ev_simpl. set (e := H.mkEvent _ _ _ _ _ _ _ _ _ _ _).
    destruct (I.mode h) eqn:Em; unfold mode_rel in Hm; try contradiction; cbn [is_running].
    2:{ apply Hidle; try reflexivity. left. unfold e. cbn [H.c_r]. destruct Hm as (M1 & _). rewrite M1. reflexivity. }
    2:{ apply Hidle; try reflexivity. right. left. reflexivity. }
    2:{ apply Hidle; try reflexivity. right. right. reflexivity. }
    destruct Hm as (M1 & M2 & M3).
    rewrite handle_events_split, (hw_idle hc e s eq_refl). cbv beta iota.
    rewrite (after_w_widle hc e s Hpl eq_refl), M3.
    unfold he_reads. hsimpl. rewrite M2.
    assert (Ecr : H.c_r e = true) by (unfold e; cbn [H.c_r]; rewrite M1; reflexivity).
    destruct (hr_fail e (H.set_writes_teared false s) (recv_exn e0) Ecr eq_refl (recv_exn_failed e0)) as (s1 & E1 & V1).
    rewrite E1. cbv beta iota.
    apply teared_sim; [exact Hr | left; exact Em |].
    rewrite V1. unfold hv. hsimpl. rewrite M3. reflexivity.
  Qed.

  (* ---------------------------------------------------------------- the upstream socket is readable *)
  Lemma ur_fail_sim e h s rr :
    rel h s -> live h -> H.c_r e = false -> H.c_w e = false -> H.u_w e = false ->
    H.u_r e = (match H.upstream s with Some _ => true | None => false end) -> H.u_recv e = rr -> recv_failed rr ->
    out_rel s (match I.mode h with
               | I.Running | I.MustFlush => if I.up_fd_valid (I.up (I.ps h)) then I.teared PS RS h I.ReadsTeared else h
               | _ => h
               end) (H.handle_events hc e s).
  Proof.
    intros Hr [_ Hup] E1 E2 E3 E4 Hrv Hf. pose proof Hr as [[cl Hwk] Hu Hm Hp He Hc Hpl Hg].
    rewrite handle_events_split, (hw_idle hc e s E2). cbv beta iota.
    assert (Hidle : (H.u_r e = false \/ I.mode h = I.ReadsTeared \/ I.mode h = I.WritesTeared) ->
                    out_rel s h (he_after_w hc e s)).
    { intros Hx.
      assert (Hx' : (H.c_r e = false /\ H.u_r e = false) \/ I.mode h = I.ReadsTeared \/ I.mode h = I.WritesTeared)
        by (destruct Hx as [X|X]; [left; split; [exact E1|exact X]|right; exact X]).
      destruct (idle_sim e h s Hr (or_introl E3) Hx') as (s' & Es & Hv). rewrite Es.
      unfold out_rel. cbn [fst snd]. split; [eapply rel_view; eassumption|].
      unfold hv in Hv. injection Hv as _ _ _ _ _ _ _ V _. exact V. }
    assert (Hact : (I.mode h = I.Running \/ I.mode h = I.MustFlush) ->
              out_rel s (if I.up_fd_valid (I.up (I.ps h)) then I.teared PS RS h I.ReadsTeared else h) (he_after_w hc e s)).
    { intros Hmode.
      assert (Hfl : H.reads_teared s = false /\ H.writes_teared s = false)
        by (destruct Hmode as [X|X]; rewrite X in Hm; unfold mode_rel in Hm; intuition).
      destruct Hfl as [M2 M3]. unfold up_rel in Hu.
      destruct (I.up (I.ps h)) eqn:Eup; cbn [I.up_fd_valid]; try contradiction.
      { apply Hidle. left. rewrite E4, Hu. reflexivity. }
      all: destruct Hu as [ucl Hu].
      all: rewrite (after_w_widle hc e s Hpl E3), M3; unfold he_reads; hsimpl; rewrite M2.
      all: rewrite (hr_idle hc e _ E1); hsimpl; rewrite Hpl.
      all: rewrite (rfd_fail e (H.set_writes_teared false s) _ rr Hpl Hu) by (try assumption; rewrite E4, Hu; reflexivity).
      all: cbv beta iota; apply teared_sim; [exact Hr | exact Hmode |].
      all: unfold hv; hsimpl; rewrite M3; reflexivity. }
    destruct (I.mode h) eqn:Em; unfold mode_rel in Hm; try contradiction.
    - apply Hact. left. reflexivity.
    - apply Hact. right. reflexivity.
    - apply Hidle. right. left. reflexivity.
    - apply Hidle. right. right. reflexivity.
  Qed.

  Lemma ud_sim t h s a raw :
    rel h s -> live h -> raw <> [] ->
    out_rel s (istep h (I.UpstreamData a raw)) (H.step hc s (hev_of t h (I.UpstreamData a raw))).
  Proof.
    intros Hr [_ Hup] Hraw. pose proof Hr as [[cl Hwk] Hu Hm Hp He Hc Hpl Hg].
    unfold H.step, H.select. rewrite (get_events_proxy s Hpl). ev_simpl.
    set (e := H.mkEvent _ _ _ _ _ _ _ _ _ _ _).
    rewrite handle_events_split, (hw_idle hc e s eq_refl). cbv beta iota.
    assert (Hidle : (H.u_r e = false \/ I.mode h = I.ReadsTeared \/ I.mode h = I.WritesTeared) ->
                    out_rel s h (he_after_w hc e s)).
    { intros Hx.
      assert (Hx' : (H.c_r e = false /\ H.u_r e = false) \/ I.mode h = I.ReadsTeared \/ I.mode h = I.WritesTeared)
        by (destruct Hx as [X|X]; [left; split; [reflexivity|exact X]|right; exact X]).
      destruct (idle_sim e h s Hr (or_introl eq_refl) Hx') as (s' & Es & Hv). rewrite Es.
      unfold out_rel. cbn [fst snd]. split; [eapply rel_view; eassumption|].
      unfold hv in Hv. injection Hv as _ _ _ _ _ _ _ V _. exact V. }
    destruct raw as [|x r]; [contradiction|].
    assert (Hact : (I.mode h = I.Running \/ I.mode h = I.MustFlush) ->
              out_rel s (if I.up_fd_valid (I.up (I.ps h))
                         then I.read_from_descriptors PS RS response_step fl a (x :: r) h else h) (he_after_w hc e s)).
    { intros Hmode.
      assert (Hfl : H.reads_teared s = false /\ H.writes_teared s = false)
        by (destruct Hmode as [X|X]; rewrite X in Hm; unfold mode_rel in Hm; intuition).
      destruct Hfl as [M2 M3]. unfold up_rel in Hu.
      destruct (I.up (I.ps h)) eqn:Eup; cbn [I.up_fd_valid]; try contradiction.
      { apply Hidle. left. unfold e. cbn [H.u_r]. rewrite Hu. reflexivity. }
      all: destruct Hu as [ucl Hu].
      all: rewrite (after_w_widle hc e s Hpl eq_refl), M3; unfold he_reads; hsimpl; rewrite M2.
      all: rewrite (hr_idle hc e _ eq_refl); hsimpl; rewrite Hpl.
      all: unfold H.read_from_descriptors; hsimpl; rewrite Hpl, Hu.
      all: change (H.u_r e) with (match H.upstream s with Some _ => true | None => false end); rewrite Hu.
      all: change (H.u_recv e) with (H.RData (x :: r)); cbv beta iota.
      all: unfold final; hsimpl; cbn [andb].
      all: assert (Hrel' : forall h', I.ps h' = queued_cl (I.ps h) (x :: r) -> I.mode h' = I.mode h -> I.escaped h' = None ->
             out_rel s h' (H.set_reads_teared false (H.client_queue (x :: r) (H.note_up_rcvd (x :: r) (H.set_writes_teared false s))), H.Continue)).
      all: try (intros h' P1 P2 P3; unfold out_rel; cbn [fst snd]; hsimpl; split; [|reflexivity];
                split; hsimpl; rewrite ?P1, ?P2, ?P3; unfold queued_cl; cbn [I.cl_buf I.cl_wire I.up I.up_buf I.up_wire];
                try assumption; try reflexivity;
                solve [ exists cl; rewrite Hwk; reflexivity
                      | unfold up_rel; rewrite Eup; exists ucl; exact Hu
                      | destruct Hmode as [X|X]; rewrite X in *; unfold mode_rel in *; hsimpl; intuition
                      | intros _ X; apply app_eq_nil in X; destruct X as [_ X]; discriminate X ]).
      all: unfold I.read_from_descriptors.
      all: destruct (I.tls_intercept_enabled_ fl a) eqn:Een;
        apply Hrel'; try reflexivity; exact He. }
    unfold I.step.
    destruct (I.mode h) eqn:Em; unfold mode_rel in Hm; try contradiction.
    - apply Hact. left. reflexivity.
    - apply Hact. right. reflexivity.
    - apply Hidle. right. left. reflexivity.
    - apply Hidle. right. right. reflexivity.
  Qed.

  (* ================================================================== every single-I/O event *)
  Theorem step_sim t h s ev :
    rel h s -> live h -> wf_ev h ev -> tunnel_ok s ev ->
    out_rel s (istep h ev) (H.step hc s (hev_of t h ev)).
  Proof.
    intros Hr Hl Hwf Htun. pose proof Hr as [[cl Hwk] Hu Hm Hp He Hc Hpl Hg].
    destruct ev as [a raw|a raw| | |o|o|e0|e0|]; cbn [wf_ev] in Hwf; try contradiction.
    - destruct Hwf as [W1 W2]. apply cd_sim; [exact Hr | exact W1 | apply Htun; reflexivity | exact W2].
    - apply ud_sim; assumption.
    - apply cw_sim; try assumption. intros e0 ->. exact Hwf.
    - apply uw_sim; try assumption. intros e0 ->. exact Hwf.
    - apply crr_sim; assumption.
    - (* recv() on the upstream socket raises *)
      assert (Hstep : istep h (I.UpstreamRecvRaise e0) =
                if I.is_SSLWantReadError e0 then h else
                match I.mode h with
                | I.Running | I.MustFlush => if I.up_fd_valid (I.up (I.ps h)) then I.teared PS RS h I.ReadsTeared else h
                | _ => h
                end).
      { unfold I.step. destruct (I.mode h); try (destruct (I.is_SSLWantReadError e0); reflexivity);
          (destruct (I.up_fd_valid (I.up (I.ps h))); [|destruct (I.is_SSLWantReadError e0); reflexivity]);
          (destruct (I.is_SSLWantReadError e0); [reflexivity|rewrite Hwf; reflexivity]). }
      rewrite Hstep. clear Hstep. cbn [hev_of].
      destruct (I.is_SSLWantReadError e0).
      + (* try again later *)
        unfold H.step, H.select. rewrite (get_events_proxy s Hpl). ev_simpl.
        set (e := H.mkEvent _ _ _ _ _ _ _ _ _ _ _).
        rewrite handle_events_split, (hw_idle hc e s eq_refl). cbv beta iota.
        destruct (idle_sim e h s Hr (or_introl eq_refl) (or_introl (conj eq_refl eq_refl))) as (s' & Es & Hv). rewrite Es.
        unfold out_rel. cbn [fst snd]. split; [eapply rel_view; eassumption|].
        unfold hv in Hv. injection Hv as _ _ _ _ _ _ _ V _. exact V.
      + unfold H.step, H.select. rewrite (get_events_proxy s Hpl). ev_simpl.
        apply (ur_fail_sim _ h s (recv_exn e0)); try assumption; try reflexivity. apply recv_exn_failed.
    - (* end of stream on the upstream socket *)
      assert (Hstep : istep h I.UpstreamEOF =
                match I.mode h with
                | I.Running | I.MustFlush => if I.up_fd_valid (I.up (I.ps h)) then I.teared PS RS h I.ReadsTeared else h
                | _ => h
                end).
      { unfold I.step. destruct (I.mode h); reflexivity. }
      rewrite Hstep. clear Hstep.
      unfold H.step, H.select. rewrite (get_events_proxy s Hpl). ev_simpl.
      apply (ur_fail_sim _ h s H.REof); try assumption; try reflexivity. unfold recv_failed. auto.
  Qed.

  (* ================================================================== event lists *)
  Lemma step_cl_up h ev :
    I.cl (I.ps (istep h ev)) = I.cl (I.ps h) /\ I.up (I.ps (istep h ev)) = I.up (I.ps h).
  Proof.
    unfold I.step, I.on_client_data, I.read_from_descriptors, I.teared, I.escape.
    destruct (I.mode h); [| | | |split; reflexivity];
      destruct ev as [a raw|a raw| | |o|o|e0|e0|];
      repeat match goal with
             | |- context [match ?x with _ => _ end] => destruct x eqn:?
             | |- context [if ?x then _ else _] => destruct x eqn:?
             end; split; cbn [I.ps I.up I.cl fst I.set_up_buf I.set_cl_buf I.set_cl_wire I.set_up_wire I.mbind I.with_ps I.with_mode]; congruence.
  Qed.

  Lemma step_live h ev : live h -> live (istep h ev).
  Proof. intros [A B]. destruct (step_cl_up h ev) as [E1 E2]. unfold live. rewrite E1, E2. split; assumption. Qed.

  Lemma step_closed h ev : I.mode h = I.Closed -> istep h ev = h.
  Proof. intros E. unfold I.step. rewrite E. reflexivity. Qed.
  Lemma fold_closed evs : forall h, I.mode h = I.Closed -> fold_left istep evs h = h.
  Proof. induction evs as [|ev r IH]; intros h E; [reflexivity|]. cbn [fold_left]. rewrite step_closed by exact E. apply IH, E. Qed.

  Fixpoint wf_run (h : istate) (evs : list I.event) : Prop :=
    match evs with [] => True | ev :: r => wf_ev h ev /\ wf_run (istep h ev) r end.
  Fixpoint hevents (h : istate) (tevs : list (Z * I.event)) : list H.event :=
    match tevs with [] => [] | (t, ev) :: r => hev_of t h ev :: hevents (istep h ev) r end.

  Definition run_rel (h' : istate) (x : H.hstate * H.res) : Prop :=
    match snd x with
    | H.Continue => rel h' (fst x)
    | H.Teardown => I.mode h' = I.Closed /\ I.escaped h' = None
    | H.Raised => I.mode h' = I.Closed /\ I.escaped h' <> None
    end.

  Theorem run_sim : forall tevs h s,
    rel h s -> live h -> wf_run h (map snd tevs) ->
    (forall te a, In te tevs -> I.event_answers (snd te) = Some a -> H.is_tunnel s = negb (I.tls_intercept_enabled_ fl a)) ->
    run_rel (fold_left istep (map snd tevs) h) (H.run hc s (hevents h tevs)).
  Proof.
    induction tevs as [|[t ev] r IH]; intros h s Hr Hl Hwf Htun.
    - exact Hr.
    - cbn [map fold_left hevents H.run snd] in *. destruct Hwf as [Hw1 Hw2].
      assert (Ht1 : tunnel_ok s ev) by (intros a Ha; apply (Htun (t, ev) a); [left; reflexivity|exact Ha]).
      pose proof (step_sim t h s ev Hr Hl Hw1 Ht1) as S.
      destruct (H.step hc s (hev_of t h ev)) as [s' v]. unfold out_rel in S. cbn [fst snd] in S.
      destruct v.
      + destruct S as [R' T']. apply IH; [exact R' | apply step_live; exact Hl | exact Hw2 |].
        intros te a Hin Ha. rewrite T'. apply (Htun te a); [right; exact Hin|exact Ha].
      + destruct S as (M & E & _). rewrite (fold_closed _ _ M). unfold run_rel. cbn [fst snd]. split; assumption.
      + destruct S as (M & E). rewrite (fold_closed _ _ M). unfold run_rel. cbn [fst snd]. split; assumption.
  Qed.
End Relay.

(* ================================================================== non-vacuity and the former disagreements (now agreements) *)
Definition ex_fl : I.flags :=
  I.mkFlags (Some (bs "k")) (Some (bs "d")) (Some (bs "s")) (Some (bs "c")) None false (bs "502") 65536.
Definition ex_hc : H.cfg := H.mkCfg 65536 (bs "200") 10%Z true.
Definition ex_pst (clb : list bytes) : I.pst := I.mkPst [] [] I.ClTls clb [] I.UpTls [] [] None.
Definition ex_h (clb : list bytes) : I.hstate unit unit := I.mkH (ex_pst clb) I.Running None tt tt.
Definition ex_s (clb : list bytes) (tunnel : bool) : H.hstate :=
  H.mkH (Cn.mkConn clb false []) false false false 0%Z true H.PProxy (Some Cn.new_conn) tunnel false [] [] [] 0%Z.
Definition echo_pipeline (_ : unit) (raw : bytes) : (unit * list bytes) + I.pipe_failure := inl (tt, [raw]).
Definition ok_response (_ : unit) (_ : bytes) : option unit := Some tt.

Lemma ex_rel clb tunnel : rel unit unit (ex_h clb) (ex_s clb tunnel).
Proof.
  split; try reflexivity.
  - exists false. reflexivity.
  - exists false. reflexivity.
  - cbn. auto.
  - intros X. exfalso. apply X. reflexivity.
Qed.

(* an intercepted exchange: a decrypted request goes upstream, the response comes back, both are flushed *)
Example intercept_relay_example :
  let evs := [ (1%Z, I.ClientData [] (bs "req")); (2%Z, I.UpstreamWrite (I.SendOk 100));
               (3%Z, I.UpstreamData [] (bs "resp")); (4%Z, I.ClientWrite (I.SendOk 2)); (5%Z, I.ClientWrite (I.SendOk 100)) ] in
  let h' := fold_left (I.step unit unit echo_pipeline ok_response ex_fl) (map snd evs) (ex_h []) in
  let '(s', v) := H.run ex_hc (ex_s [] false) (hevents unit unit echo_pipeline ok_response ex_fl (ex_h []) evs) in
  v = H.Continue /\ I.mode h' = I.Running /\
  I.wire_bytes (I.up_wire (I.ps h')) = bs "req" /\ H.delivered_upstream s' = bs "req" /\
  I.wire_bytes (I.cl_wire (I.ps h')) = bs "resp" /\ H.delivered_client s' = bs "resp".
Proof. vm_compute. repeat split; reflexivity. Qed.

(* FORMER DISAGREEMENT 1 (was [intercept_response_parse_differ]; Intercept.v repaired to follow fix ba95ac6): under
   interception the bookkeeping response parser raises on a chunk from the origin ([response_step] = None).
   Both models, like /repo: the chunk is queued for the client, the relay continues.  The general statement is
   [ud_sim]/[step_sim], which no longer carry a premise about [response_step]. *)
Lemma intercept_response_parse_agree :
  let bad_response := fun (_ : unit) (_ : bytes) => @None unit in
  let ev := I.UpstreamData [] (bs "x") in
  let h' := I.step unit unit echo_pipeline bad_response ex_fl (ex_h []) ev in
  let '(s', v) := H.step ex_hc (ex_s [] false) (hev_of unit unit echo_pipeline ex_fl 1%Z (ex_h []) ev) in
  I.mode h' = I.Running /\ I.escaped h' = None /\ I.cl_buf (I.ps h') = [bs "x"] /\
  v = H.Continue /\ H.pending_client s' = bs "x".
Proof. vm_compute. repeat split; reflexivity. Qed.

(* FORMER DISAGREEMENT 2 (was [intercept_pipeline_protocol_exception_differ]; Intercept.v repaired): the parser of
   decrypted follow-up requests raises an HttpProtocolException ([pipeline_step] = inr (PipeProtocol [])) while
   output is still pending for the client.  Both models, like /repo: handle_data catches it and returns True;
   with output pending must_flush_before_shutdown is armed, the pending bytes are delivered by the next
   client write, and only then the work is torn down - nothing escapes.  [hev_of] now maps this oracle value to
   Handler's DProto; the general statement is [cd_sim]/[step_sim]. *)
Lemma intercept_pipeline_protocol_exception_agree :
  let bad_pipeline := fun (_ : unit) (_ : bytes) => @inr (unit * list bytes) _ (I.PipeProtocol []) in
  let ev := I.ClientData [] (bs "G") in
  let h1 := I.step unit unit bad_pipeline ok_response ex_fl (ex_h [bs "r"]) ev in
  let '(s1, v1) := H.step ex_hc (ex_s [bs "r"] false) (hev_of unit unit bad_pipeline ex_fl 1%Z (ex_h [bs "r"]) ev) in
  let ev2 := I.ClientWrite (I.SendOk 100) in
  let h2 := I.step unit unit bad_pipeline ok_response ex_fl h1 ev2 in
  let '(s2, v2) := H.step ex_hc s1 (hev_of unit unit bad_pipeline ex_fl 2%Z h1 ev2) in
  I.mode h1 = I.MustFlush /\ I.escaped h1 = None /\ I.cl_buf (I.ps h1) = [bs "r"] /\
  v1 = H.Continue /\ H.must_flush s1 = true /\ H.pending_client s1 = bs "r" /\
  I.mode h2 = I.Closed /\ I.escaped h2 = None /\ I.wire_bytes (I.cl_wire (I.ps h2)) = bs "r" /\
  v2 = H.Teardown /\ H.delivered_client s2 = bs "r".
Proof. vm_compute. repeat split; reflexivity. Qed.
