(* Model coherence, part 2 (event loops), file 4: what the event loop makes of the VALUE OR EXCEPTION of
   plugin.on_request_complete() — HttpProtocolHandler._parse_first_request / handle_data (the except clause) /
   handle_readables (SSLWantReadError, socket.error) / BaseTcpServerHandler.handle_readables / handle_events —
   is modelled in Net/FirstRequest.v (C06, abstract hook) and again in Tls/Intercept.v (C11, [handle_connect]:
   the hook is the CONNECT path with TLS interception, the routing is a mode).
   This file only fixes the vocabulary for that link: Intercept's exceptions as C06's exception classes
   ([hexn_of], [out_of]) and [handle_connect] as a routing function of the hook's result ([route],
   [handle_connect_is_route]).  The routing agreement itself (Running <-> still reading, MustFlush <->
   must_flush_before_shutdown, ReadsTeared <-> reads_teared, Closed <-> torn) is NOT proved here: see
   notes/Links.md part 2, "not proved". *)
From PM Require Import Lib.Bytes Lib.BytesFacts Lib.PyStr Http.Url Http.Chunk Http.Parser.
From PM Require Net.Responses Net.FirstRequest Net.FirstRequestFacts Tls.Intercept Links.EventLoops.
From Coq Require Import ZArith Lia.

Module Q := PM.Net.FirstRequest.
Module QF := PM.Net.FirstRequestFacts.
Module R := PM.Net.Responses.
Module I := PM.Tls.Intercept.
Module L1 := PM.Links.EventLoops.

(* Intercept's exceptions as C06's exception classes *)
Definition hexn_of (e : I.pyexn) : Q.hexn :=
  if I.is_HttpProtocolException e then
    match e with I.ProxyConnectionFailed => Q.Proto R.ConnFailed | _ => Q.Proto (R.PlainProtocol 0) end
  else if I.is_SSLWantReadError e then Q.Other (OSError Q.SSL_WANT_READ)
  else if I.is_OSError e then Q.Other (OSError 1)
  else Q.Other AssertionError.        (* any exception that is neither: escapes *)

Definition out_of (r : I.res I.orc_ret) : Q.orc_outcome :=
  match r with
  | I.Ret I.RetSocket => Q.RetSocket
  | I.Ret (I.RetBool b) => Q.RetBool b
  | I.Raise e => Q.OrcRaise (hexn_of e)
  end.

Section Connect.
  Variable PS RS : Type.
  Variable fl : I.flags.

  (* Intercept.handle_connect, with the result of on_request_complete as an argument *)
  Definition route (h : I.hstate PS RS) (x : I.pst * I.res I.orc_ret) : I.hstate PS RS :=
    match x with
    | (s, I.Ret I.RetSocket) => I.with_ps h s
    | (s, I.Ret (I.RetBool false)) => I.with_ps h s
    | (s, I.Ret (I.RetBool true)) => I.with_mode (I.with_ps h s) (I.after_handle_data_true s)
    | (s, I.Raise e) =>
        if I.is_HttpProtocolException e then
          let s' := match e with
                    | I.ProxyConnectionFailed => fst (I.client_queue (I.bad_gateway_pkt fl) s)
                    | _ => s
                    end in
          I.with_mode (I.with_ps h s') (I.after_handle_data_true s')
        else if I.is_SSLWantReadError e then I.with_ps h s
        else if I.is_OSError e then I.with_mode (I.with_ps h s) (I.after_reads_teared s)
        else I.mkH s I.Closed (Some e) (I.pipe h) (I.resp h)
    end.

  Lemma handle_connect_is_route is_ip connect handshake openssl_run client_flush client_handshake host port answers h :
    I.handle_connect is_ip connect handshake openssl_run client_flush client_handshake PS RS fl host port answers h =
    route h (I.on_request_complete is_ip connect handshake openssl_run client_flush client_handshake fl host port answers (I.ps h)).
  Proof. unfold I.handle_connect, route. reflexivity. Qed.

End Connect.
