(* Model coherence layer: everything, with the assumptions of every main link theorem.
   harness/links_check.sh rebuilds this file and counts "Closed under the global context". *)
From PM Require Links.Builders Links.Rewrite Links.ParseErrors Links.ForwardConversation
  Links.FirstRequestForward Links.Flush Links.UrlLink Links.HandlerAbstraction
  Links.EventLoops Links.EventLoopsIntercept Links.EventLoopsChain Links.EventLoopsConnect.

(* ---- 1. builders (Http/Builders.v = Net/Static.v = Net/Responses.v = Net/Reverse.v = Net/Auth.v) ---- *)
Print Assumptions Links.Builders.static_build_http_pkt_eq.
Print Assumptions Links.Builders.static_build_http_response_eq.
Print Assumptions Links.Builders.static_okResponse_eq.
Print Assumptions Links.Builders.static_served_file_pkt_eq.
Print Assumptions Links.Builders.responses_build_http_pkt_eq.
Print Assumptions Links.Builders.responses_build_http_response_eq.
Print Assumptions Links.Builders.reverse_build_http_pkt_eq.
Print Assumptions Links.Builders.reverse_build_http_request_eq.
Print Assumptions Links.Builders.reverse_build_http_response_eq.
Print Assumptions Links.Builders.reverse_to_chunks_eq.
Print Assumptions Links.Builders.reverse_build_is_Builders_build.
Print Assumptions Links.Builders.request_of_parser_surjective.
Print Assumptions Links.Builders.not_found_pkt_shared.
Print Assumptions Links.Builders.auth_build_http_pkt_eq.
Print Assumptions Links.Builders.auth_build_http_response_eq.
Print Assumptions Links.Builders.auth_build_http_request_eq.
Print Assumptions Links.Builders.auth_build_headers_eq.
Print Assumptions Links.Builders.auth_canned_packets_shared.
Print Assumptions Links.Builders.intercept_tunnel_pkt_shared.
Print Assumptions Links.Builders.intercept_strip_brackets_shared.
(* disagreements *)
Print Assumptions Links.Builders.static_build_http_pkt_differ.
Print Assumptions Links.Builders.static_build_http_response_differ.
Print Assumptions Links.Builders.reverse_to_chunks_differ_zero.

(* ---- 2. request rewriting for the upstream (Forward = Conversation = PluginChain/Auth on the abstraction) ---- *)
Print Assumptions Links.Rewrite.forward_conversation_rebuild_agree.
Print Assumptions Links.Rewrite.auth_build_is_Builders_build.
Print Assumptions Links.Rewrite.chain_scrub_is_forward.
Print Assumptions Links.Rewrite.chain_queue_is_forward.
Print Assumptions Links.Rewrite.chain_first_request_is_forward.
Print Assumptions Links.Rewrite.chain_later_request_is_forward.
Print Assumptions Links.Rewrite.chain_first_request_port_regression.

(* ---- 3. handle_data / _parse_first_request ---- *)
Print Assumptions Links.ParseErrors.parse_exn_kinds.
Print Assumptions Links.ForwardConversation.handle_data_sim.
Print Assumptions Links.ForwardConversation.feed_sim.
Print Assumptions Links.ForwardConversation.forward_is_conversation_upstream.
Print Assumptions Links.ForwardConversation.connect_upstream_agree.
Print Assumptions Links.ForwardConversation.post_exception_request_differ.
Print Assumptions Links.FirstRequestForward.handle_data_sim.
Print Assumptions Links.FirstRequestForward.feed_sim.
Print Assumptions Links.FirstRequestForward.client_bytes_agree.
Print Assumptions Links.HandlerAbstraction.ocd_sim.
Print Assumptions Links.HandlerAbstraction.handle_data_sim.

(* ---- 4. TcpConnection.queue / flush ---- *)
Print Assumptions Links.Flush.queue_p_eq.
Print Assumptions Links.Flush.flush_eq.
Print Assumptions Links.Flush.conversation_flush_abstraction.
Print Assumptions Links.Flush.flush_differ_zero.

(* ---- 6. URLs ---- *)
Print Assumptions Links.UrlLink.cfg_url_roundtrip.
Print Assumptions Links.UrlLink.cfg_url_is_reverse_record.
Print Assumptions Links.UrlLink.reverse_upstream_port_agree.
Print Assumptions Links.UrlLink.reverse_host_value_agree.
Print Assumptions Links.UrlLink.reverse_forwarded_bytes_agree.

(* ---- part 2: the event loops above handle_data ---- *)
(* FirstRequest.v (C06) <-> Handler.v (C01/C07/C20) *)
Print Assumptions Links.EventLoops.handle_data_sim.
Print Assumptions Links.EventLoops.flush_sim.
Print Assumptions Links.EventLoops.hw_sim.
Print Assumptions Links.EventLoops.get_events_agree.
Print Assumptions Links.EventLoops.step_sim.
Print Assumptions Links.EventLoops.run_sim.
Print Assumptions Links.EventLoops.run_sim_fresh.
Print Assumptions Links.EventLoops.event_loops_example.
(* Intercept.v (C11) <-> Handler.v *)
Print Assumptions Links.EventLoopsIntercept.handle_events_split.
Print Assumptions Links.EventLoopsIntercept.conn_flush_eq.
Print Assumptions Links.EventLoopsIntercept.cw_sim.
Print Assumptions Links.EventLoopsIntercept.uw_sim.
Print Assumptions Links.EventLoopsIntercept.cd_sim.
Print Assumptions Links.EventLoopsIntercept.ud_sim.
Print Assumptions Links.EventLoopsIntercept.step_sim.
Print Assumptions Links.EventLoopsIntercept.run_sim.
Print Assumptions Links.EventLoopsIntercept.intercept_relay_example.
(* PluginChain.v (C08/C09) <-> Handler.v *)
Print Assumptions Links.EventLoopsChain.handler_reads_teared_skips_reads.
Print Assumptions Links.EventLoopsChain.chain_relay_is_handler.
Print Assumptions Links.EventLoopsChain.chain_shutdown_is_handler.
(* Intercept.handle_connect as a routing function *)
Print Assumptions Links.EventLoopsConnect.handle_connect_is_route.
(* disagreements *)
Print Assumptions Links.EventLoopsIntercept.intercept_response_parse_agree.
Print Assumptions Links.EventLoopsIntercept.intercept_pipeline_protocol_exception_agree.
Print Assumptions Links.EventLoopsChain.chain_oserror_is_handler.
Print Assumptions Links.EventLoopsChain.firstrequest_hook_oserror_tears_reads.
