(* Model coherence, helper: which exceptions HttpParser.parse (Http/Parser.v) can raise.
   The connection models disagree on how they NUMBER the HttpProtocolException kinds (Forward: 5 =
   ProxyConnectionFailed, 6 = ProxyAuthenticationFailed carry a response; Conversation: no numbering),
   so linking them needs: the parser itself only ever raises kinds 1 ('invalid scheme', url.py) and
   2 ('bad request line', parser.py), for EVERY parser state (no invariant needed) and input. *)
From PM Require Import Lib.Bytes Lib.BytesFacts Lib.PyStr Http.Url Http.Chunk Http.ChunkFacts Http.Parser Http.ParserFacts.
From Coq Require Import ZArith Lia.

Definition parser_exn (e : exn) : Prop := forall k, e = HttpProtocolException k -> k = 1 \/ k = 2.

Lemma pe_value : parser_exn ValueError. Proof. intros k H; discriminate. Qed.
Lemma pe_index : parser_exn IndexError. Proof. intros k H; discriminate. Qed.
Lemma pe_key : parser_exn KeyError. Proof. intros k H; discriminate. Qed.
Lemma pe_assert : parser_exn AssertionError. Proof. intros k H; discriminate. Qed.
Lemma pe_unicode : parser_exn UnicodeDecodeError. Proof. intros k H; discriminate. Qed.
Lemma pe_oof : parser_exn OutOfFuel. Proof. intros k H; discriminate. Qed.
Lemma pe_1 : parser_exn (HttpProtocolException 1). Proof. intros k H; inversion H; auto. Qed.
Lemma pe_2 : parser_exn (HttpProtocolException 2). Proof. intros k H; inversion H; auto. Qed.
#[local] Hint Resolve pe_value pe_index pe_key pe_assert pe_unicode pe_oof pe_1 pe_2 : pe.

Lemma int10_pe raw e : int10 raw = Err e -> parser_exn e.
Proof. intros H. apply py_int_err in H. subst. auto with pe. Qed.

Lemma patch_ipv6_pe h e : patch_ipv6 h = Err e -> parser_exn e.
Proof.
  unfold patch_ipv6, text_. destruct (utf8_valid h); cbn [bind].
  - destruct (mem_byte COLON h); [|discriminate].
    destruct h as [|x t]; [discriminate|]. destruct (_ && _); discriminate.
  - intros H; inv_ok H. auto with pe.
Qed.

Lemma parse_authority_pe raw e : parse_authority raw = Err e -> parser_exn e.
Proof.
  unfold parse_authority.
  destruct (match split_once [AT] raw with None => _ | Some (ui, rest) => _ end) as [[user pass] hostport].
  destruct (splitn2_cases [COLON] hostport) as [(a & E)|[(a & c & E)|(a & c & d & E)]]; rewrite E.
  - discriminate.
  - destruct (int10 c) eqn:V; cbn [bind]; [discriminate|].
    intros H; inv_ok H. eapply int10_pe; exact V.
  - destruct (int10 _); destruct (patch_ipv6 _) eqn:Pq; cbn [bind]; try discriminate.
    all: intros H; inv_ok H; eapply patch_ipv6_pe; exact Pq.
Qed.

Lemma from_bytes_pe al raw e : from_bytes al raw = Err e -> parser_exn e.
Proof.
  unfold from_bytes. destruct raw as [|c0 t]; [intros H; inv_ok H; auto with pe|].
  destruct (_ && negb _); [discriminate|].
  match goal with |- context [bind ?x _] => destruct x as [[sch rest]|e0] eqn:E end; cbn [bind].
  - destruct rest as [rest'|].
    + destruct (match split_once [SLASH] rest' with None => _ | Some (a, p) => _ end) as [auth rem].
      destruct (parse_authority auth) as [[[[u p] h] pt]|e1] eqn:PA; cbn [bind]; [discriminate|].
      intros H; inv_ok H. eapply parse_authority_pe; exact PA.
    + destruct (parse_authority (c0 :: t)) as [[[[u p] h] pt]|e1] eqn:PA; cbn [bind]; [discriminate|].
      intros H; inv_ok H. eapply parse_authority_pe; exact PA.
  - intros H; inv_ok H. destruct (negb _).
    + destruct (split_once _ _) as [[s r]|]; [|discriminate].
      destruct (mem_bytes s al); inv_ok E. auto with pe.
    + discriminate.
Qed.

Lemma process_line_pe al p raw e : process_line al p raw = Err e -> parser_exn e.
Proof.
  unfold process_line. destruct (split_once CRLF raw) as [[line rest]|]; [|discriminate].
  destruct (is_request (ty p)).
  - destruct (splitn [SP] 2 line) as [|x1 [|x2 [|x3 [|x4 l]]]]; try (intros H; inv_ok H; solve [auto with pe]).
    destruct (from_bytes al x2) as [u|e0] eqn:FB; cbn [bind].
    + destruct (line_attributes _ u) as [[h pt] pa]. discriminate.
    + intros H; inv_ok H. eapply from_bytes_pe; exact FB.
  - destruct (splitn [SP] 2 line) as [|x1 [|x2 [|x3 [|x4 l]]]]; try discriminate; intros H; inv_ok H; solve [auto with pe].
Qed.

Lemma process_headers_pe : forall fuel p raw e, process_headers fuel p raw = Err e -> parser_exn e.
Proof.
  induction fuel as [|f IH]; intros p raw e; cbn [process_headers]; [intros H; inv_ok H; auto with pe|].
  destruct (split_once CRLF raw) as [[line rest]|]; [|discriminate].
  match goal with |- context [bind ?x _] => destruct x as [p'|e0] eqn:E end; cbn [bind].
  - destruct (match rest with [] => true | _ => false end || _); [intros H; discriminate H|]. apply IH.
  - intros H; inv_ok H. destruct ((state p =? LINE_RCVD) || _); [|discriminate].
    destruct (match strip line with [] => true | _ => false end); [discriminate|].
    apply process_header_err in E. subst. auto with pe.
Qed.

Lemma chunk_loop_pe : forall fuel m c raw e, chunk_loop fuel m c raw = Err e -> parser_exn e.
Proof.
  induction fuel as [|f IH]; intros m c raw e; cbn [chunk_loop]; [intros H; inv_ok H; auto with pe|].
  destruct (m && negb _); [|discriminate].
  destruct (chunk_process c raw) as [[[m' raw'] c']|e0] eqn:E; cbn [bind].
  - apply IH.
  - intros H; inv_ok H. apply chunk_process_err in E. destruct E; subst; auto with pe.
Qed.

Lemma process_body_pe p raw e : process_body p raw = Err e -> parser_exn e.
Proof.
  unfold process_body. destruct (is_chunked_encoded p).
  - destruct (chunk_parse _ raw) as [[raw' c']|e0] eqn:E; cbn [bind]; [discriminate|].
    intros H; inv_ok H. unfold chunk_parse in E. eapply chunk_loop_pe; exact E.
  - destruct (content_expected p); [|discriminate].
    destruct (header _ CONTENT_LENGTH) as [cl|e0] eqn:Hh; cbn [bind].
    + destruct (int10 cl) as [total|e1] eqn:Hi; cbn [bind]; [discriminate|].
      intros H; inv_ok H. eapply int10_pe; exact Hi.
    + intros H; inv_ok H. unfold header in Hh. destruct (headers _); [|inv_ok Hh; auto with pe].
      destruct (dict_get _ _) as [[? ?]|]; inv_ok Hh. auto with pe.
Qed.

Lemma parse_loop_pe al : forall fuel m p raw e, parse_loop fuel al m p raw = Err e -> parser_exn e.
Proof.
  induction fuel as [|f IH]; intros m p raw e; cbn [parse_loop]; [intros H; inv_ok H; auto with pe|].
  destruct (m && negb _); [|discriminate].
  match goal with |- context [bind ?x _] => destruct x as [[[m' raw'] p']|e0] eqn:E end; cbn [bind].
  - apply IH.
  - intros H; inv_ok H.
    destruct (HEADERS_COMPLETE <=? state p); [eapply process_body_pe; exact E|].
    destruct (state p =? INITIALIZED); [eapply process_line_pe; exact E|].
    eapply process_headers_pe; exact E.
Qed.

(* every state, every input: no invariant, no well-formedness *)
Theorem parse_exn_kinds p raw e : parse p raw = Err e -> parser_exn e.
Proof.
  unfold parse, parse_with. cbv zeta.
  match goal with |- context [bind ?x _] => destruct x as [[raw' p']|e0] eqn:E end; cbn [bind]; [discriminate|].
  intros H; inv_ok H. eapply parse_loop_pe; exact E.
Qed.

(* a successful parse leaves buffer = None or a NON-EMPTY remainder *)
Lemma parse_buffer_shape p raw q : parse p raw = Ok q -> buffer q = None \/ exists x t, buffer q = Some (x :: t).
Proof.
  unfold parse, parse_with. cbv zeta.
  match goal with |- context [bind ?x _] => destruct x as [[raw' p']|e0] eqn:E end; cbn [bind]; [|discriminate].
  intros H; inv_ok H. destruct raw' as [|x t]; cbn [buffer set_buffer_size]; [left; reflexivity|right; eauto].
Qed.
