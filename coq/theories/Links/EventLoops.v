(* Model coherence, part 2 (event loops), file 1: the event loop of HttpProtocolHandler
     handle_events / handle_writables / handle_readables  (proxy/http/handler.py)
     BaseTcpServerHandler.handle_writables / handle_readables / get_events  (proxy/core/base/tcp_server.py)
     TcpConnection.flush
   is modelled
     - in Net/Handler.v (C01/C07/C20): all four descriptors, every socket outcome, clock; the HTTP side is
       an ORACLE carried by each event ([req], [cdata]);
     - in Net/FirstRequest.v (C06): client socket only, send() never fails; the HTTP side is the real
       parser plus an ABSTRACT plugin (the hooks on_request_complete / on_client_data are Section variables).
   This file instantiates Handler's oracles from FirstRequest's computations ([req_of], [cdata_of]), maps a
   FirstRequest event to a Handler event ([hev_of]: the plugin's descriptors are never ready, send() accepts
   k bytes, recv() yields data / EOF / reset) and proves that Handler.step and FirstRequest.step are in
   lock-step for every pair of related states, every event and every event list:
   same client buffer and bytes on the wire, same must_flush_before_shutdown / reads_teared flags, same
   request-complete / plugin-present phase, same verdict (continue / teardown / exception escapes).
   The abstract plugin of C06 appears in Handler.v as the LOCAL plugin kind (PLocal: it answers by queueing
   for the client and owns no descriptor).

   Premises (all visible): max_sendbuf_size is the same positive number in both configurations; received
   segments are non-empty; the hooks do not raise OSError (FirstRequest routes an OSError of a hook through
   handle_readables' `except socket.error` -> True; Handler.v's oracle has no value for that, see
   notes/Links.md part 2). *)
From PM Require Import Lib.Bytes Lib.BytesFacts Lib.PyStr Http.Url Http.Chunk Http.Parser.
From PM Require Net.Conn Net.ConnFacts Net.Responses Net.FirstRequest Net.FirstRequestFacts Net.Handler.
From Coq Require Import ZArith Lia.

Module Cn := PM.Net.Conn.
Module CF := PM.Net.ConnFacts.
Module H := PM.Net.Handler.
Module Q := PM.Net.FirstRequest.
Module R := PM.Net.Responses.
Module QF := PM.Net.FirstRequestFacts.

Definition isS {A} (o : option A) : bool := match o with Some _ => true | None => false end.

(* ================================================================== Handler-side frame facts *)
(* the part of a Handler state the event loop of the client side reads *)
Definition hview (s : H.hstate) :=
  (H.work s, H.must_flush s, H.writes_teared s, H.reads_teared s, H.req_complete s, H.plugin s, H.upstream s,
   H.is_tunnel s, H.pipeline_upgrade s).

Lemma cqa_view mvs : forall s,
  hview (H.client_queue_all mvs s) =
  (Cn.queue_all mvs (H.work s), H.must_flush s, H.writes_teared s, H.reads_teared s, H.req_complete s, H.plugin s,
   H.upstream s, H.is_tunnel s, H.pipeline_upgrade s).
Proof.
  induction mvs as [|mv t IH]; intros s; [reflexivity|].
  cbn [H.client_queue_all Cn.queue_all]. rewrite IH. reflexivity.
Qed.

Lemma wtd_no_upstream c e s : H.upstream s = None -> H.write_to_descriptors c e s = (s, false).
Proof. intros Hu. unfold H.write_to_descriptors. rewrite Hu. destruct (H.plugin s); reflexivity. Qed.
Lemma rfd_no_upstream c e s : H.upstream s = None -> H.read_from_descriptors c e s = (s, Some false).
Proof. intros Hu. unfold H.read_from_descriptors. rewrite Hu. destruct (H.plugin s); reflexivity. Qed.

Section FirstRequestHandler.
  Variable qc : Q.config.
  Variable orc : N -> parser -> list bytes * Q.orc_outcome.
  Variable ocd : N -> parser -> list bytes -> bytes -> list bytes * Q.ocd_outcome.
  Variable hc : H.cfg.
  Hypothesis Hmax : H.max_send hc = Q.max_send qc.
  Hypothesis Hpos : Q.max_send qc <> 0.

  Definition not_oserror (e : Q.hexn) : Prop := forall k, Q.canon e <> Q.Other (OSError k).
  Hypothesis Horc_os : forall k p q e, orc k p = (q, Q.OrcRaise e) -> not_oserror e.
  Hypothesis Hocd_os : forall k p hist raw q e, ocd k p hist raw = (q, Q.OcdRaise e) -> not_oserror e.

  Notation BAD := (Q.BAD_REQUEST qc).

  (* e.response(self.request) as the list of pieces handle_data queues *)
  Definition resp_pieces (e : R.proto_exn) : list bytes :=
    match R.exn_response (Q.agent qc) e with Some (x :: t) => [x :: t] | _ => [] end.

  (* ---------------------------------------------------------------- the oracles *)
  (* [cdata]: what plugin.on_client_data(raw) amounts to *)
  Definition cdata_of (h : Q.handler) (raw : bytes) : H.cdata_outcome :=
    match Q.plugin h with
    | None => H.DNothing
    | Some k =>
        let '(q, out) := ocd k (Q.request h) (Q.ocd h) raw in
        match out with
        | Q.OcdReturn => H.DReply q
        | Q.OcdRaise e => match Q.canon e with
                          | Q.Proto pe => H.DProto (q ++ resp_pieces pe)
                          | Q.Other _ => H.DRaise
                          end
        end
    end.

  Definition rem_of (p : parser) : bytes := match Parser.buffer p with Some b => b | None => [] end.

  (* [req]: what _parse_first_request + on_request_complete amounted to, once a plugin class was looked up *)
  Definition req_part (p : parser) (proto : hproto) : H.req_outcome :=
    match Q.discover_plugin_klass qc proto with
    | None => H.RError [BAD]
    | Some k =>
        let '(q, out) := orc k p in
        match out with
        | Q.RetBool true => H.RError q
        | Q.RetBool false => H.RServe q (rem_of p)
        | Q.RetSocket => H.RServe q (rem_of p)
        | Q.RetOther => H.RRaise
        | Q.OrcRaise e => match Q.canon e with
                          | Q.Proto pe => H.RError (q ++ resp_pieces pe)
                          | Q.Other _ => H.RRaise
                          end
        end
    end.

  Definition req_of (h : Q.handler) (data : bytes) : H.req_outcome :=
    match parse (Q.request h) data with
    | Err _ => H.RError [BAD]
    | Ok p =>
        if negb (is_complete p) then H.RIncomplete else
        match http_handler_protocol p with
        | UNKNOWN_PROTO => H.RError [BAD]
        | proto => req_part p proto
        end
    end.

  (* the [cdata] oracle of the event in which the first request completes: the remainder hand-over *)
  Definition cdata_first (h : Q.handler) (data : bytes) : H.cdata_outcome :=
    match Q.parse_first_request qc orc h data with
    | (h1, Q.HOk false) =>
        match Parser.buffer (Q.request h1) with
        | Some (x :: t) =>
            cdata_of (Q.set_request h1 (set_buffer_size (Q.request h1) None (total_size (Q.request h1)))) (x :: t)
        | _ => H.DNothing
        end
    | _ => H.DNothing
    end.

  Definition cdata_for (h : Q.handler) (data : bytes) : H.cdata_outcome :=
    if is_complete (Q.request h) then cdata_of h data else cdata_first h data.

  (* ---------------------------------------------------------------- the event map *)
  Definition recv_of (r : option Q.recv_outcome) : H.recv_res :=
    match r with
    | Some (Q.Data d) => H.RData d
    | Some Q.Eof => H.REof
    | Some Q.RecvErr => H.RReset
    | None => H.ROsErr                (* not readable: never looked at *)
    end.
  Definition send_of (w : option N) : Cn.outcome :=
    match w with Some k => Cn.Accept k | None => Cn.WouldBlock end.
  Definition data_of (r : option Q.recv_outcome) : bytes :=
    match r with Some (Q.Data d) => d | _ => [] end.

  Definition hev_of (t : Z) (h : Q.handler) (ev : Q.event) : H.event :=
    H.mkEvent t (isS (Q.ev_r ev)) (isS (Q.ev_w ev)) false false
              (send_of (Q.ev_w ev)) Cn.WouldBlock (recv_of (Q.ev_r ev)) H.ROsErr
              (req_of h (data_of (Q.ev_r ev))) (cdata_for h (data_of (Q.ev_r ev))).

  Definition wf_event (ev : Q.event) : Prop :=
    match Q.ev_r ev with Some (Q.Data []) => False | _ => True end.

  (* ---------------------------------------------------------------- the relation *)
  Record rel0 (h : Q.handler) (s : H.hstate) : Prop := {
    r_buf : Cn.buffer (H.work s) = Q.buffer h;
    r_sent : Cn.sent (H.work s) = Q.sent h;
    r_mf : H.must_flush s = Q.must_flush h;
    r_rt : H.reads_teared s = Q.reads_teared h;
    r_wt : H.writes_teared s = false;
    r_up : H.upstream s = None }.

  Definition pk_of (h : Q.handler) : H.plugin_kind :=
    match Q.plugin h with Some _ => H.PLocal | None => H.PNone end.
  Definition phase (h : Q.handler) (s : H.hstate) : Prop :=
    H.req_complete s = is_complete (Q.request h) /\ H.plugin s = pk_of h.
  Definition reading (h : Q.handler) : Prop := Q.must_flush h = false /\ Q.reads_teared h = false.
  Definition rel (h : Q.handler) (s : H.hstate) : Prop := rel0 h s /\ (reading h -> phase h s).

  (* the Q-side fields the relation reads *)
  Definition qio (h : Q.handler) := (Q.buffer h, Q.sent h, Q.must_flush h, Q.reads_teared h).
  Definition qview (h : Q.handler) := (qio h, Q.request h, Q.plugin h).

  Lemma rel0_io h h' s s' : qio h' = qio h -> hview s' = hview s -> rel0 h s -> rel0 h' s'.
  Proof.
    unfold qio, hview. intros Eq Eh [A B C D E F].
    injection Eq as Q0 Q1 Q2 Q3. injection Eh as V0 V1 V2 V3 V4 V5 V6 V7 V8.
    split; congruence.
  Qed.
  Lemma rel0_view h h' s s' : qview h' = qview h -> hview s' = hview s -> rel0 h s -> rel0 h' s'.
  Proof. intros Eq. apply rel0_io. exact (f_equal (fun v => fst (fst v)) Eq). Qed.
  Lemma phase_view h h' s s' :
    Q.request h' = Q.request h -> Q.plugin h' = Q.plugin h -> hview s' = hview s -> phase h s -> phase h' s'.
  Proof.
    unfold hview, phase, pk_of. intros Q4 Q5 Eh [A B].
    injection Eh as V0 V1 V2 V3 V4 V5 V6 V7 V8.
    rewrite Q4, Q5, V4, V5. split; assumption.
  Qed.

  Lemma has_buffer_rel h s : rel0 h s -> Cn.has_buffer (H.work s) = Q.has_buffer h.
  Proof.
    intros [A _ _ _ _ _]. unfold Cn.has_buffer, Q.has_buffer. rewrite A. destruct (Q.buffer h); reflexivity.
  Qed.

  (* queueing the same pieces on both sides *)
  Lemma rel0_queue_all h s h' s' q :
    rel0 h s ->
    Q.buffer h' = Q.buffer h ++ q -> Q.sent h' = Q.sent h ->
    Q.must_flush h' = Q.must_flush h -> Q.reads_teared h' = Q.reads_teared h ->
    H.work s' = Cn.queue_all q (H.work s) -> H.must_flush s' = H.must_flush s ->
    H.reads_teared s' = H.reads_teared s -> H.writes_teared s' = H.writes_teared s -> H.upstream s' = H.upstream s ->
    rel0 h' s'.
  Proof.
    intros [A B C D E F] Q1 Q2 Q3 Q4 W1 W2 W3 W4 W5. split.
    - rewrite W1, CF.queue_all_buffer, A, Q1. reflexivity.
    - rewrite W1, CF.queue_all_sent, B, Q2. reflexivity.
    - congruence.
    - congruence.
    - congruence.
    - congruence.
  Qed.

  (* ---------------------------------------------------------------- the except clauses at the end of handle_data *)
  Definition fin (x : Q.handler * Q.hres bool) : Q.handler * Q.hres bool :=
    let '(h1, r) := x in
    match r with
    | Q.HErr (Q.Proto e) =>
        match R.exn_response (Q.agent qc) e with
        | Some (a :: t) => (Q.queue_h h1 (a :: t) (Some e), Q.HOk true)
        | _ => ((if R.is_nil (Q.hq h1) then Q.set_exc h1 (Q.Proto e) else h1), Q.HOk true)
        end
    | Q.HErr (Q.Other e) => (h1, Q.HErr (Q.Other e))
    | Q.HOk b => (h1, Q.HOk b)
    end.

  Lemma handle_data_fin h data :
    Q.handle_data qc orc ocd h data =
    fin (if negb (is_complete (Q.request h)) then
           match Q.parse_first_request qc orc h data with
           | (h1, Q.HOk true) => (h1, Q.HOk true)
           | (h1, Q.HOk false) => Q.hand_over_remainder ocd h1
           | (h1, Q.HErr e) => (h1, Q.HErr e)
           end
         else match Q.plugin h with
              | Some k => Q.call_on_client_data ocd h k data
              | None => (h, Q.HOk false)
              end).
  Proof. unfold Q.handle_data, fin. reflexivity. Qed.

  (* outcome of handle_data on both sides *)
  Definition hd_rel (x : Q.handler * Q.hres bool) (y : H.hstate * option bool) : Prop :=
    match snd x with
    | Q.HOk false => snd y = Some false /\ rel0 (fst x) (fst y) /\ phase (fst x) (fst y)
    | Q.HOk true => snd y = Some true /\ rel0 (fst x) (fst y)
    | Q.HErr (Q.Other e) => snd y = None /\ (forall k, e <> OSError k)
    | Q.HErr (Q.Proto _) => False
    end.

  (* a rejection: the pieces [pieces] are queued on both sides and handle_data returns True *)
  Lemma reject_rel h h1 s s0 pieces :
    rel0 h s ->
    Q.buffer h1 = Q.buffer h ++ pieces -> Q.sent h1 = Q.sent h ->
    Q.must_flush h1 = Q.must_flush h -> Q.reads_teared h1 = Q.reads_teared h ->
    hview s0 = (H.work s, H.must_flush s, H.writes_teared s, H.reads_teared s, true, H.PNone, H.upstream s, false,
                H.pipeline_upgrade s) ->
    hd_rel (h1, Q.HOk true) (H.client_queue_all pieces s0, Some true).
  Proof.
    intros Hr Q1 Q2 Q3 Q4 Hv. unfold hd_rel. cbn [fst snd]. split; [reflexivity|].
    pose proof (cqa_view pieces s0) as V. unfold hview in V, Hv.
    injection V as V0 V1 V2 V3 V4 V5 V6 V7 V8. injection Hv as W0 W1 W2 W3 W4 W5 W6 W7 W8.
    eapply rel0_queue_all; try eassumption; congruence.
  Qed.

  (* ---------------------------------------------------------------- plugin.on_client_data *)
  Lemma ocd_sim e h s k raw :
    rel0 h s -> Q.plugin h = Some k -> H.plugin s = H.PLocal -> H.req_complete s = is_complete (Q.request h) ->
    H.cdata e = cdata_of h raw ->
    hd_rel (fin (Q.call_on_client_data ocd h k raw)) (H.on_client_data e s raw).
  Proof.
    intros Hr Hpl Hps Hrc Hcd. unfold H.on_client_data. rewrite Hps, Hcd.
    unfold cdata_of, Q.call_on_client_data. rewrite Hpl.
    destruct (ocd k (Q.request h) (Q.ocd h) raw) as [q out] eqn:Eo.
    destruct out as [|e0].
    - (* the hook returned *)
      cbn [fin hd_rel fst snd]. split; [reflexivity|].
      pose proof (cqa_view q s) as V. unfold hview in V. injection V as V1 V2 V3 V4 V5 V6 V7 V8 V9. split.
      + eapply rel0_queue_all; try eassumption; try reflexivity.
      + unfold phase, pk_of. cbn [Q.request Q.plugin Q.queue_p Q.note_ocd Q.mk]. rewrite Hpl. split; congruence.
    - pose proof (Hocd_os _ _ _ _ _ _ Eo) as Hno.
      destruct (Q.canon e0) as [pe|oe] eqn:Ec.
      + (* HttpProtocolException: its response (if any) is queued, handle_data returns True *)
        cbn [fin]. unfold resp_pieces.
        pose proof (cqa_view (q ++ match R.exn_response (Q.agent qc) pe with Some (x :: t) => [x :: t] | _ => [] end) s) as V.
        unfold hview in V. injection V as V1 V2 V3 V4 V5 V6 V7 V8 V9.
        destruct (R.exn_response (Q.agent qc) pe) as [[|a t]|]; unfold hd_rel; cbn [fst snd]; (split; [reflexivity|]).
        * destruct (R.is_nil _);
            (eapply rel0_queue_all; try eassumption; try reflexivity;
             cbn [Q.buffer Q.queue_p Q.note_ocd Q.set_exc Q.mk]; rewrite ?app_nil_r; reflexivity).
        * eapply rel0_queue_all; try eassumption; try reflexivity.
          cbn [Q.buffer Q.queue_h Q.queue_p Q.note_ocd Q.mk]. rewrite app_assoc. reflexivity.
        * destruct (R.is_nil _);
            (eapply rel0_queue_all; try eassumption; try reflexivity;
             cbn [Q.buffer Q.queue_p Q.note_ocd Q.set_exc Q.mk]; rewrite ?app_nil_r; reflexivity).
      + cbn [fin hd_rel fst snd]. split; [reflexivity|]. intros n ->. exact (Hno n Ec).
  Qed.

  (* ---------------------------------------------------------------- _parse_first_request, after the class lookup *)
  Definition orc_part (h1 : Q.handler) (p : parser) (proto : hproto) : Q.handler * Q.hres bool :=
    match Q.discover_plugin_klass qc proto with
    | None => (Q.queue_h h1 BAD None, Q.HOk true)
    | Some k =>
        let h2 := Q.set_plugin h1 k in
        let '(q, out) := orc k p in
        let h3 := Q.note_orc (Q.queue_p h2 q) in
        match out with
        | Q.RetBool b => (h3, Q.HOk b)
        | Q.RetSocket => (h3, Q.HOk false)
        | Q.RetOther => (h3, Q.HErr (Q.Other AssertionError))
        | Q.OrcRaise e => (h3, Q.HErr (Q.canon e))
        end
    end.

  Lemma pfr_unfold h data :
    Q.parse_first_request qc orc h data =
    match parse (Q.request h) data with
    | Err (HttpProtocolException k) => (Q.queue_h (Q.note_parse h) BAD None, Q.HErr (Q.Proto (R.PlainProtocol k)))
    | Err _ => (Q.queue_h (Q.note_parse h) BAD None, Q.HErr (Q.Proto (R.PlainProtocol 3)))
    | Ok p =>
        let h1 := Q.set_request (Q.note_parse h) p in
        if negb (is_complete p) then (h1, Q.HOk false) else
        match http_handler_protocol p with
        | UNKNOWN_PROTO => (Q.queue_h h1 BAD None, Q.HOk true)
        | proto => orc_part h1 p proto
        end
    end.
  Proof.
    unfold Q.parse_first_request, orc_part.
    destruct (parse (Q.request h) data) as [p|e]; [|reflexivity].
    cbv zeta. destruct (negb (is_complete p)); [reflexivity|].
    destruct (http_handler_protocol p); reflexivity.
  Qed.

  (* the first request, from the point where the request is complete and of a known protocol *)
  Lemma orc_part_sim e h1 s p proto :
    rel0 h1 s -> Q.request h1 = p -> is_complete p = true ->
    H.req e = req_part p proto ->
    (forall k, Q.discover_plugin_klass qc proto = Some k ->
       forall q b, orc k p = (q, b) -> (b = Q.RetBool false \/ b = Q.RetSocket) ->
       forall x t, Parser.buffer p = Some (x :: t) ->
       H.cdata e = cdata_of (Q.set_request (Q.note_orc (Q.queue_p (Q.set_plugin h1 k) q))
                                           (set_buffer_size p None (total_size p))) (x :: t)) ->
    hd_rel (fin (match orc_part h1 p proto with
                 | (h2, Q.HOk true) => (h2, Q.HOk true)
                 | (h2, Q.HOk false) => Q.hand_over_remainder ocd h2
                 | (h2, Q.HErr x) => (h2, Q.HErr x)
                 end))
           (match H.parse_first_request hc e s with
            | (s1, Some false) =>
                match H.req_rem (H.req e) with
                | [] => (s1, Some false)
                | rem => if H.req_complete s1
                         then match H.plugin s1 with H.PNone => (s1, Some false) | _ => H.on_client_data e s1 rem end
                         else (s1, Some false)
                end
            | r => r
            end).
  Proof.
    intros Hr Hrq Hcp Hreq Hcd. unfold H.parse_first_request. rewrite Hreq. unfold req_part, orc_part.
    destruct (Q.discover_plugin_klass qc proto) as [k|] eqn:Ed.
    2:{ (* no class for the protocol: 400 *)
        cbn [fin]. eapply reject_rel; try exact Hr; try reflexivity. }
    specialize (Hcd k eq_refl).
    destruct (orc k p) as [q out] eqn:Eo. specialize (Hcd q out eq_refl).
    set (h3 := Q.note_orc (Q.queue_p (Q.set_plugin h1 k) q)) in *.
    assert (B3 : Q.buffer h3 = Q.buffer h1 ++ q) by reflexivity.
    (* the serving paths: on_request_complete returned False or a socket *)
    assert (Hserve : (out = Q.RetBool false \/ out = Q.RetSocket) ->
              hd_rel (fin (Q.hand_over_remainder ocd h3))
                (match H.req_rem (H.RServe q (rem_of p)) with
                 | [] => (H.client_queue_all q (H.set_request true H.PLocal false s), Some false)
                 | rem =>
                     if H.req_complete (H.client_queue_all q (H.set_request true H.PLocal false s))
                     then match H.plugin (H.client_queue_all q (H.set_request true H.PLocal false s)) with
                          | H.PNone => (H.client_queue_all q (H.set_request true H.PLocal false s), Some false)
                          | _ => H.on_client_data e (H.client_queue_all q (H.set_request true H.PLocal false s)) rem
                          end
                     else (H.client_queue_all q (H.set_request true H.PLocal false s), Some false)
                 end)).
    { intros Hout. specialize (Hcd Hout).
      set (s1 := H.client_queue_all q (H.set_request true H.PLocal false s)).
      pose proof (cqa_view q (H.set_request true H.PLocal false s)) as V. fold s1 in V.
      unfold hview in V. cbn [H.work H.must_flush H.writes_teared H.reads_teared H.req_complete H.plugin H.upstream
                              H.is_tunnel H.pipeline_upgrade H.set_request] in V. injection V as V1 V2 V3 V4 V5 V6 V7 V8 V9.
      assert (Hr3 : rel0 h3 s1).
      { eapply rel0_queue_all; try exact Hr; try eassumption; try reflexivity. }
      assert (Hp3 : phase h3 s1).
      { unfold phase, pk_of. change (Q.request h3) with (Q.request h1). change (Q.plugin h3) with (Some k).
        rewrite Hrq, Hcp. split; assumption. }
      unfold Q.hand_over_remainder. change (Q.request h3) with (Q.request h1). change (Q.plugin h3) with (Some k).
      rewrite Hrq, Hcp. cbn [H.req_rem]. unfold rem_of.
      destruct (Parser.buffer p) as [[|x t]|] eqn:Eb.
      - cbn [fin hd_rel fst snd]. auto.
      - rewrite V5, V6.
        apply ocd_sim; try assumption.
        + eapply rel0_io; [| reflexivity | exact Hr3]. reflexivity.
        + reflexivity.
        + rewrite V5. symmetry. exact Hcp.
        + apply (Hcd x t eq_refl).
      - cbn [fin hd_rel fst snd]. auto. }
    destruct out as [[|]| | |e0].
    - (* True: the plugin rejects *)
      cbn [fin]. eapply reject_rel; try exact Hr; try reflexivity.
    - apply Hserve. left; reflexivity.
    - apply Hserve. right; reflexivity.
    - (* neither bool nor socket: the assert fails *)
      cbn [fin hd_rel fst snd]. split; [reflexivity|]. intros n Hn; discriminate Hn.
    - pose proof (Horc_os _ _ _ _ Eo) as Hno.
      destruct (Q.canon e0) as [pe|oe] eqn:Ec.
      + cbn [fin]. unfold resp_pieces.
        destruct (R.exn_response (Q.agent qc) pe) as [[|a t]|].
        * destruct (R.is_nil _); (eapply reject_rel; try exact Hr; try reflexivity;
            cbn [Q.buffer Q.set_exc Q.mk]; rewrite B3, ?app_nil_r; reflexivity).
        * eapply reject_rel; try exact Hr; try reflexivity.
          cbn [Q.buffer Q.queue_h Q.mk]. rewrite B3, app_assoc. reflexivity.
        * destruct (R.is_nil _); (eapply reject_rel; try exact Hr; try reflexivity;
            cbn [Q.buffer Q.set_exc Q.mk]; rewrite B3, ?app_nil_r; reflexivity).
      + cbn [fin hd_rel fst snd]. split; [reflexivity|]. intros n ->. exact (Hno n Ec).
  Qed.

  (* ================================================================== handle_data *)
  Theorem handle_data_sim e h s data :
    rel0 h s -> phase h s ->
    H.req e = req_of h data -> H.cdata e = cdata_for h data ->
    hd_rel (Q.handle_data qc orc ocd h data) (H.handle_data hc e s data).
  Proof.
    intros Hr [Hrc Hps] Hreq Hcd. rewrite handle_data_fin. unfold H.handle_data, cdata_for in *. rewrite Hrc.
    destruct (is_complete (Q.request h)) eqn:Hc; cbn [negb].
    - (* later data *)
      destruct (Q.plugin h) as [k|] eqn:Hpl.
      + apply ocd_sim; try assumption.
        * unfold pk_of in Hps. rewrite Hpl in Hps. exact Hps.
        * congruence.
      + unfold H.on_client_data, pk_of in *. rewrite Hpl in Hps. rewrite Hps.
        cbn [fin hd_rel fst snd]. split; [reflexivity|]. split; [exact Hr|].
        unfold phase, pk_of. rewrite Hpl, Hc. split; assumption.
    - (* the first request *)
      unfold cdata_first in Hcd. rewrite pfr_unfold in *. unfold req_of in Hreq.
      destruct (parse (Q.request h) data) as [p|pe] eqn:Ep.
      2:{ (* unparsable: 400, teardown *)
          unfold H.parse_first_request. rewrite Hreq. cbv beta iota.
          destruct pe; cbn [fin R.exn_response];
            (destruct (R.is_nil _); (eapply reject_rel; try exact Hr; reflexivity)). }
      cbv zeta in *.
      set (h1 := Q.set_request (Q.note_parse h) p) in *.
      assert (Hr1 : rel0 h1 s) by (eapply rel0_io; [| reflexivity | exact Hr]; reflexivity).
      destruct (negb (is_complete p)) eqn:Hcp.
      { (* still incomplete *)
        apply negb_true_iff in Hcp.
        unfold Q.hand_over_remainder. change (Q.request h1) with p. rewrite Hcp.
        unfold H.parse_first_request. rewrite Hreq. cbn [H.req_rem fin hd_rel fst snd].
        split; [reflexivity|]. split; [exact Hr1|].
        unfold phase, pk_of. change (Q.request h1) with p. change (Q.plugin h1) with (Q.plugin h).
        rewrite Hcp. split; assumption. }
      apply negb_false_iff in Hcp.
      destruct (http_handler_protocol p) eqn:Eproto.
      + (* unknown protocol: 400 *)
        unfold H.parse_first_request. rewrite Hreq. cbn [fin].
        eapply reject_rel; try exact Hr1; reflexivity.
      + apply orc_part_sim; try assumption; try reflexivity.
        intros k Ek q b Eo Hb x t Eb. rewrite Hcd. unfold orc_part. rewrite Ek, Eo.
        destruct Hb as [-> | ->]; cbv zeta; cbn [Q.request Q.note_orc Q.queue_p Q.set_plugin Q.mk];
          change (Q.request h1) with p; rewrite Eb; reflexivity.
      + apply orc_part_sim; try assumption; try reflexivity.
        intros k Ek q b Eo Hb x t Eb. rewrite Hcd. unfold orc_part. rewrite Ek, Eo.
        destruct Hb as [-> | ->]; cbv zeta; cbn [Q.request Q.note_orc Q.queue_p Q.set_plugin Q.mk];
          change (Q.request h1) with p; rewrite Eb; reflexivity.
  Qed.

  (* ================================================================== TcpConnection.flush on the client socket *)
  Lemma flush_sim h s k : rel0 h s ->
    exists w' n, Cn.flush (H.max_send hc) (Cn.Accept k) (H.work s) = (w', Cn.Flushed n) /\
      Cn.buffer w' = Q.buffer (Q.flush qc h k) /\ Cn.sent w' = Q.sent (Q.flush qc h k).
  Proof.
    intros [A B _ _ _ _]. rewrite Hmax. unfold Cn.flush, Q.flush. rewrite A.
    destruct (Q.buffer h) as [|mv rest] eqn:Eb.
    - exists (H.work s), 0. split; [reflexivity|]. split; [congruence|exact B].
    - unfold Cn.eff_max. destruct (N.eqb_spec (Q.max_send qc) 0) as [E|_]; [contradiction|]. cbv zeta.
      set (m := Q.max_send qc). set (n := N.min k (len (take m mv))).
      assert (Ht : take n (take m mv) = take n mv) by (apply CF.take_take_min; unfold n; rewrite CF.len_take; lia).
      rewrite Ht, B. eexists; eexists. split; [reflexivity|].
      destruct (n =? len mv); cbn [Cn.buffer Cn.sent Q.buffer Q.sent Q.set_io Q.mk]; split; reflexivity.
  Qed.

  Ltac hq_simpl :=
    cbn [H.work H.must_flush H.reads_teared H.writes_teared H.upstream H.req_complete H.plugin H.is_tunnel
         H.pipeline_upgrade H.set_must_flush H.set_work H.note_client_io H.set_last_activity H.set_writes_teared
         H.set_reads_teared
         Q.buffer Q.sent Q.must_flush Q.reads_teared Q.request Q.plugin Q.torn Q.exc Q.set_must_flush Q.set_reads_teared
         Q.set_torn Q.set_exc Q.set_client_gone Q.mk].

  (* ================================================================== handle_writables (both classes) *)
  Lemma hw_sim e h s w :
    rel0 h s -> H.c_w e = isS w && Cn.has_buffer (H.work s) -> (forall k, w = Some k -> H.c_send e = Cn.Accept k) ->
    exists s1 h1 b, H.handle_writables hc e s = (s1, b) /\ Q.handle_writables qc h w = (h1, b) /\
      rel0 h1 s1 /\ H.req_complete s1 = H.req_complete s /\ H.plugin s1 = H.plugin s /\
      QF.logical h1 = QF.logical h /\ Q.reads_teared h1 = Q.reads_teared h /\
      Q.torn h1 = Q.torn h /\ (b = false -> Q.must_flush h1 = Q.must_flush h).
  Proof.
    intros Hr Hcw Hsend. unfold H.handle_writables, Q.handle_writables. rewrite Hcw.
    rewrite (has_buffer_rel _ _ Hr).
    destruct w as [k|]; cbn [isS andb].
    2:{ exists s, h, false. split; [reflexivity|]. split; [reflexivity|]. split; [exact Hr|]. repeat split; reflexivity. }
    destruct (Q.has_buffer h) eqn:Hb.
    2:{ exists s, h, false. split; [reflexivity|]. split; [reflexivity|]. split; [exact Hr|]. repeat split; reflexivity. }
    unfold H.base_handle_writables.
    cbn [H.work H.set_last_activity H.note_client_io H.must_flush H.set_work]. rewrite Hcw.
    rewrite (has_buffer_rel _ _ Hr), Hb. cbn [isS andb].
    rewrite (Hsend k eq_refl).
    destruct (flush_sim h s k Hr) as (w' & n & Ef & Bw & Sw). rewrite Ef.
    destruct (QF.flush_spec qc h k) as (Hl & Hm & Hrt & Ht & _).
    set (h1 := Q.flush qc h k) in *.
    assert (Hhb : Cn.has_buffer w' = Q.has_buffer h1).
    { unfold Cn.has_buffer, Q.has_buffer. rewrite Bw. destruct (Q.buffer h1); reflexivity. }
    pose proof Hr as [A B C D E F].
    rewrite Hhb, C, <- Hm.
    destruct (Q.must_flush h1 && negb (Q.has_buffer h1)) eqn:Hd.
    - eexists; eexists; exists true. split; [reflexivity|]. split; [reflexivity|].
      split; [split; hq_simpl; congruence|]. hq_simpl. repeat split; try congruence; try reflexivity; try exact Hl.
    - eexists; eexists; exists false. split; [reflexivity|]. split; [reflexivity|].
      split; [split; hq_simpl; congruence|]. hq_simpl. repeat split; try congruence; try reflexivity; try exact Hl.
  Qed.

  Lemma get_events_client s :
    H.i_cr (H.get_events s) = negb (H.must_flush s) /\ H.i_cw (H.get_events s) = Cn.has_buffer (H.work s).
  Proof.
    unfold H.get_events, H.base_get_events, H.plugin_get_descriptors.
    destruct (H.plugin s); destruct (H.upstream s); split; reflexivity.
  Qed.

  (* what the two event loops agree on after a step *)
  Definition io_rel (h : Q.handler) (s : H.hstate) : Prop :=
    Cn.buffer (H.work s) = Q.buffer h /\ Cn.sent (H.work s) = Q.sent h.
  Definition verdict_rel (h' : Q.handler) (x : H.hstate * H.res) : Prop :=
    match snd x with
    | H.Continue => Q.torn h' = false /\ rel h' (fst x)
    | H.Teardown => Q.torn h' = true /\ io_rel h' (fst x)
    | H.Raised => Q.torn h' = true /\ exists e, Q.exc h' = Some (Q.Other e)
    end.

  Lemma rel0_io_rel h s : rel0 h s -> io_rel h s.
  Proof. intros [A B _ _ _ _]. split; assumption. Qed.

  Lemma wrapW_spec c e s1 : H.upstream s1 = None -> exists s2,
    (match H.plugin s1 with
     | H.PNone => (s1, false)
     | _ => let '(s', b) := H.write_to_descriptors c e s1 in (H.set_writes_teared b s', b)
     end) = (s2, false) /\ (s2 = s1 \/ s2 = H.set_writes_teared false s1).
  Proof.
    intros Hu. rewrite (wtd_no_upstream c e s1 Hu).
    destruct (H.plugin s1); eexists; (split; [reflexivity|]); auto.
  Qed.

  Lemma wrapR_spec c e s1 : H.upstream s1 = None -> exists s2,
    (match H.plugin s1 with
     | H.PNone => (s1, Some false)
     | _ => let (s'', o0) := H.read_from_descriptors c e s1 in
            match o0 with
            | Some b0 => (H.set_reads_teared b0 s'', Some b0)
            | None => (s'', None)
            end
     end) = (s2, Some false) /\ (s2 = s1 \/ s2 = H.set_reads_teared false s1).
  Proof.
    intros Hu. rewrite (rfd_no_upstream c e s1 Hu).
    destruct (H.plugin s1); eexists; (split; [reflexivity|]); auto.
  Qed.

  (* the oracles only look at the request parser, the plugin and the history of on_client_data calls *)
  Lemma oracles_logical h1 h data : QF.logical h1 = QF.logical h ->
    req_of h1 data = req_of h data /\ cdata_for h1 data = cdata_for h data.
  Proof.
    unfold QF.logical. intros Hl. injection Hl as L1 L2 _ _ _ L6 _ _ _.
    change (FirstRequest.request h1 = FirstRequest.request h) with (Q.request h1 = Q.request h) in L1.
    split; [unfold req_of; rewrite L1; reflexivity|].
    unfold cdata_for. rewrite L1. destruct (is_complete (Q.request h)).
    - unfold cdata_of. rewrite L1, L2, L6. reflexivity.
    - unfold cdata_first. rewrite !pfr_unfold. rewrite L1.
      destruct (parse (Q.request h) data) as [p|pe]; [|destruct pe; reflexivity].
      cbv zeta. destruct (negb (is_complete p)).
      { cbn [Q.request Q.set_request Q.note_parse Q.mk]. destruct (buffer p) as [[|x t]|]; try reflexivity.
        unfold cdata_of. cbn [Q.request Q.plugin Q.ocd Q.set_request Q.note_parse Q.mk]. rewrite L2, L6. reflexivity. }
      assert (Hop : forall proto,
        (let (h2, r) := orc_part (Q.set_request (Q.note_parse h1) p) p proto in
         match r with
         | Q.HOk false => match buffer (Q.request h2) with
             | Some (x :: t) => cdata_of (Q.set_request h2 (set_buffer_size (Q.request h2) None (total_size (Q.request h2)))) (x :: t)
             | _ => H.DNothing end
         | _ => H.DNothing end) =
        (let (h2, r) := orc_part (Q.set_request (Q.note_parse h) p) p proto in
         match r with
         | Q.HOk false => match buffer (Q.request h2) with
             | Some (x :: t) => cdata_of (Q.set_request h2 (set_buffer_size (Q.request h2) None (total_size (Q.request h2)))) (x :: t)
             | _ => H.DNothing end
         | _ => H.DNothing end)).
      { intros proto. unfold orc_part. destruct (Q.discover_plugin_klass qc proto) as [k|]; [|reflexivity].
        cbv zeta. destruct (orc k p) as [q out].
        destruct out as [[|]| | |e0]; try reflexivity;
          cbn [Q.request Q.note_orc Q.queue_p Q.set_plugin Q.set_request Q.note_parse Q.mk];
          (destruct (buffer p) as [[|x t]|]; try reflexivity);
          unfold cdata_of; cbn [Q.request Q.plugin Q.ocd Q.note_orc Q.queue_p Q.set_plugin Q.set_request Q.note_parse Q.mk];
          rewrite L6; reflexivity. }
      destruct (http_handler_protocol p); [reflexivity|apply Hop|apply Hop].
  Qed.

  (* the end of handle_events: `if self.reads_teared and not self.work.has_buffer(): return True` *)
  Lemma finish_sim h' s' s4 b :
    rel0 h' s' -> Q.torn h' = false -> hview s4 = hview (H.set_reads_teared b s') ->
    (b = false -> Q.must_flush h' = false -> phase h' s') ->
    verdict_rel (match Q.HOk (b && negb (Q.has_buffer (Q.set_reads_teared h' b))) with
                 | Q.HOk true => Q.set_torn (Q.set_reads_teared h' b)
                 | Q.HOk false => Q.set_reads_teared h' b
                 | Q.HErr e0 => Q.set_torn (Q.set_exc (Q.set_reads_teared h' b) e0)
                 end)
                (if H.reads_teared s4 && negb (Cn.has_buffer (H.work s4)) then (s4, H.Teardown) else (s4, H.Continue)).
  Proof.
    intros Hr Ht Hv Hph.
    assert (Hr4 : rel0 (Q.set_reads_teared h' b) s4).
    { destruct Hr as [A B C D E F]. unfold hview in Hv. injection Hv as V0 V1 V2 V3 V4 V5 V6 V7 V8.
      revert V0 V1 V2 V3 V6. hq_simpl. intros V0 V1 V2 V3 V6. split; hq_simpl; congruence. }
    rewrite (has_buffer_rel _ _ Hr4). destruct Hr4 as [A4 B4 C4 D4 E4 F4]. rewrite D4.
    change (Q.reads_teared (Q.set_reads_teared h' b)) with b.
    destruct (b && negb (Q.has_buffer (Q.set_reads_teared h' b))) eqn:Hd; unfold verdict_rel; cbn [fst snd].
    - split; [reflexivity|]. split; hq_simpl; assumption.
    - split; [exact Ht|]. split; [split; assumption|].
      intros [Hmf Hrt]. revert Hmf Hrt. hq_simpl. intros Hmf Hrt. subst b.
      eapply phase_view; [| | exact Hv | apply Hph; [reflexivity|exact Hmf]]; reflexivity.
  Qed.

  Theorem step_sim t h s ev :
    rel h s -> Q.torn h = false -> wf_event ev ->
    verdict_rel (Q.step qc orc ocd h ev) (H.step hc s (hev_of t h ev)).
  Proof.
    intros [Hr Hph] Htorn Hwf. unfold Q.step, H.step. rewrite Htorn.
    set (e := H.select s (hev_of t h ev)).
    set (ev' := {| Q.ev_w := if Q.has_buffer h then Q.ev_w ev else None;
                   Q.ev_r := if Q.must_flush h then None else Q.ev_r ev |}).
    destruct (get_events_client s) as [Gr Gw].
    pose proof Hr as [A B C D E F].
    assert (Ecw : H.c_w e = isS (Q.ev_w ev') && Cn.has_buffer (H.work s)).
    { unfold e, H.select. cbn [H.c_w hev_of]. rewrite Gw, (has_buffer_rel _ _ Hr). cbn [Q.ev_w ev'].
      destruct (Q.has_buffer h), (Q.ev_w ev); reflexivity. }
    assert (Ecs : forall k, Q.ev_w ev' = Some k -> H.c_send e = Cn.Accept k).
    { intros k. unfold e, H.select. cbn [H.c_send hev_of Q.ev_w ev'].
      destruct (Q.has_buffer h); [|discriminate]. intros ->. reflexivity. }
    assert (Ecr : H.c_r e = isS (Q.ev_r ev')).
    { unfold e, H.select. cbn [H.c_r hev_of]. rewrite Gr, C. cbn [Q.ev_r ev'].
      destruct (Q.must_flush h), (Q.ev_r ev); reflexivity. }
    unfold H.handle_events, Q.handle_events.
    destruct (hw_sim e h s (Q.ev_w ev') Hr Ecw Ecs) as (s1 & h1 & b & Ehw & Eqw & Hr1 & Hrc1 & Hpl1 & Ql1 & Qrt1 & Qt1 & Qmf1).
    rewrite Ehw, Eqw. cbv beta iota.
    destruct b.
    { (* the final flush completed: teardown *)
      unfold verdict_rel. cbn [fst snd]. split; [reflexivity|]. apply rel0_io_rel in Hr1. exact Hr1. }
    specialize (Qmf1 eq_refl).
    assert (Qrq1 : Q.request h1 = Q.request h /\ Q.plugin h1 = Q.plugin h).
    { unfold QF.logical in Ql1. injection Ql1 as L1 L2 _ _ _ _ _ _ _. split; assumption. }
    destruct Qrq1 as [Qrq1 Qpl1].
    pose proof Hr1 as [A1 B1 C1 D1 E1 F1]. rewrite E1.
    destruct (wrapW_spec hc e s1 F1) as (s2 & E2 & Hs2). rewrite E2. cbv beta iota. cbn [andb].
    assert (Hv2 : hview s2 = hview s1).
    { destruct Hs2 as [-> | ->]; [reflexivity|]. unfold hview. hq_simpl. rewrite E1. reflexivity. }
    assert (Hr2 : rel0 h1 s2) by (eapply rel0_io; [reflexivity | exact Hv2 | exact Hr1]).
    assert (Hph2 : Q.must_flush h1 = false -> Q.reads_teared h1 = false -> phase h1 s2).
    { intros M1 R1. assert (P : phase h s) by (apply Hph; split; congruence).
      destruct P as [P1 P2]. unfold hview in Hv2. injection Hv2 as V0 V1 V2 V3 V4 V5 V6 V7 V8.
      unfold phase, pk_of in *. rewrite Qrq1, Qpl1, V4, V5, Hrc1, Hpl1. split; assumption. }
    pose proof Hr2 as [A2 B2 C2 D2 E2' F2]. rewrite D2.
    destruct (Q.reads_teared h1) eqn:Ert.
    { (* reads already torn down: only the flush matters *)
      cbv beta iota. rewrite D2, (has_buffer_rel _ _ Hr2).
      destruct (Q.has_buffer h1); cbn [negb andb]; unfold verdict_rel; cbn [fst snd].
      - split; [congruence|]. split; [exact Hr2|]. intros [_ R]. congruence.
      - split; [reflexivity|]. split; hq_simpl; assumption. }
    (* reads not torn down *)
    unfold Q.handle_readables, H.handle_readables. rewrite Ecr.
    destruct (Q.ev_r ev') as [r|] eqn:Er; cbn [isS].
    2:{ (* client not readable, or not registered for reading *)
        cbv beta iota.
        destruct (wrapR_spec hc e s2 F2) as (s3 & E3 & Hs3). rewrite E3. cbv beta iota.
        apply finish_sim with (s' := s2); try assumption; try congruence.
        - destruct Hs3 as [-> | ->]; [|reflexivity]. unfold hview. hq_simpl. rewrite D2. reflexivity.
        - intros _ M. apply Hph2; [exact M|reflexivity]. }
    cbn [Q.ev_r ev'] in Er. destruct (Q.must_flush h) eqn:Hmf; [discriminate|].
    assert (Erecv : H.c_recv e = recv_of (Some r)).
    { unfold e, H.select. cbn [H.c_recv hev_of]. rewrite Er. reflexivity. }
    assert (Hmf1 : Q.must_flush h1 = false) by congruence.
    specialize (Hph2 Hmf1 eq_refl).
    unfold H.base_handle_readables. rewrite Ecr. cbn [isS]. rewrite Erecv.
    set (s0 := H.note_client_io (H.now e) (H.set_last_activity (H.now e) s2)).
    assert (Hr0 : rel0 h1 s0) by (eapply rel0_io; [reflexivity | | exact Hr2]; reflexivity).
    assert (Hph0 : phase h1 s0) by (eapply phase_view; [| | | exact Hph2]; reflexivity).
    (* what follows handle_readables on both sides, for a result (hx, HOk b) / (sx, Some b) *)
    assert (Hfin : forall hx sx b, rel0 hx sx -> Q.torn hx = false ->
              (b = false -> Q.must_flush hx = false -> phase hx sx) -> (b = false -> Q.reads_teared hx = false) ->
              verdict_rel (match Q.HOk (b && negb (Q.has_buffer (Q.set_reads_teared hx b))) with
                           | Q.HOk true => Q.set_torn (Q.set_reads_teared hx b)
                           | Q.HOk false => Q.set_reads_teared hx b
                           | Q.HErr e0 => Q.set_torn (Q.set_exc (Q.set_reads_teared hx b) e0)
                           end)
                (match (if b then (H.set_reads_teared true sx, Some true)
                        else match H.plugin sx with
                             | H.PNone => (sx, Some false)
                             | _ => let (s'', o0) := H.read_from_descriptors hc e sx in
                                    match o0 with
                                    | Some b0 => (H.set_reads_teared b0 s'', Some b0)
                                    | None => (s'', None)
                                    end
                             end) with
                 | (s4, Some _) => if H.reads_teared s4 && negb (Conn.has_buffer (H.work s4))
                                   then (s4, H.Teardown) else (s4, H.Continue)
                 | (s4, None) => (s4, H.Raised)
                 end)).
    { intros hx sx b0 Hrx Htx Hpx Hrtx. destruct b0.
      - cbv beta iota. apply finish_sim with (s' := sx); try assumption. reflexivity.
      - pose proof Hrx as [Ax Bx Cx Dx Ex Fx].
        destruct (wrapR_spec hc e sx Fx) as (s3 & E3 & Hs3). rewrite E3. cbv beta iota.
        apply finish_sim with (s' := sx); try assumption.
        destruct Hs3 as [-> | ->]; [|reflexivity]. unfold hview. hq_simpl.
        rewrite Dx, (Hrtx eq_refl). reflexivity. }
    destruct r as [d| |]; cbn [recv_of Q.base_handle_readables].
    - (* data: handle_data *)
      destruct d as [|x d']; [unfold wf_event in Hwf; rewrite Er in Hwf; contradiction|].
      assert (Eor : H.req e = req_of h1 (x :: d') /\ H.cdata e = cdata_for h1 (x :: d')).
      { unfold e, H.select. cbn [H.req H.cdata hev_of]. rewrite Er. cbn [data_of].
        destruct (oracles_logical h1 h (x :: d') Ql1) as [O1 O2]. split; congruence. }
      destruct Eor as [Ereq Ecd].
      pose proof (handle_data_sim e h1 s0 (x :: d') Hr0 Hph0 Ereq Ecd) as Hd.
      pose proof (QF.hd_post_holds qc orc ocd h1 (x :: d')) as HP.
      destruct (Q.handle_data qc orc ocd h1 (x :: d')) as [h2 r2].
      destruct (H.handle_data hc e s0 (x :: d')) as [s' o].
      destruct HP as (P1 & P2 & P3 & _).
      unfold hd_rel in Hd. cbn [fst snd] in Hd.
      destruct r2 as [[|]|[pe|oe]].
      + (* handle_data returned True *)
        destruct Hd as [-> Hr'].
        rewrite (has_buffer_rel _ _ Hr'). destruct (Q.has_buffer h2) eqn:Hb2; cbv beta iota.
        * (* output pending: must_flush_before_shutdown *)
          apply (Hfin (Q.set_must_flush h2 true) (H.set_must_flush true s') false).
          -- destruct Hr' as [A' B' C' D' E' F']. split; hq_simpl; congruence.
          -- hq_simpl. congruence.
          -- hq_simpl. intros _ X. discriminate X.
          -- intros _. hq_simpl. congruence.
        * apply (Hfin h2 s' true); [exact Hr' | congruence | intros X; discriminate X | intros X; discriminate X].
      + destruct Hd as (-> & Hr' & Hp'). cbv beta iota.
        apply (Hfin h2 s' false); [exact Hr' | congruence | intros _ _; exact Hp' | intros _; congruence].
      + contradiction.
      + destruct Hd as [-> Hno]. cbv beta iota.
        destruct oe; try (exfalso; eapply Hno; reflexivity);
          cbv beta iota; unfold verdict_rel; cbn [fst snd]; (split; [reflexivity|]); eexists; reflexivity.
    - (* end of stream *)
      cbv beta iota.
      apply (Hfin (Q.set_client_gone h1) s0 true);
        [apply (rel0_io h1 (Q.set_client_gone h1) s0 s0); [reflexivity | reflexivity | exact Hr0] | hq_simpl; congruence
         | intros X; discriminate X | intros X; discriminate X].
    - (* reset / timeout / socket error *)
      cbv beta iota.
      apply (Hfin (Q.set_client_gone h1) s0 true);
        [apply (rel0_io h1 (Q.set_client_gone h1) s0 s0); [reflexivity | reflexivity | exact Hr0] | hq_simpl; congruence
         | intros X; discriminate X | intros X; discriminate X].
  Qed.

  (* get_events: what FirstRequest.step masks is what Handler's selector registration says *)
  Lemma get_events_agree h s : rel0 h s ->
    H.get_events s = H.mkInt (negb (Q.must_flush h)) (Q.has_buffer h) false false.
  Proof.
    intros Hr. pose proof Hr as [A B C D E F].
    unfold H.get_events, H.base_get_events, H.plugin_get_descriptors.
    rewrite F, C, (has_buffer_rel _ _ Hr). destruct (H.plugin s); reflexivity.
  Qed.

  (* ================================================================== every event list *)
  Fixpoint hevents (h : Q.handler) (tevs : list (Z * Q.event)) : list H.event :=
    match tevs with
    | [] => []
    | (t, ev) :: r => hev_of t h ev :: hevents (Q.step qc orc ocd h ev) r
    end.

  Theorem run_sim : forall tevs h s,
    rel h s -> Q.torn h = false -> Forall (fun te => wf_event (snd te)) tevs ->
    verdict_rel (fold_left (Q.step qc orc ocd) (map snd tevs) h) (H.run hc s (hevents h tevs)).
  Proof.
    induction tevs as [|[t ev] r IH]; intros h s Hrel Ht Hwf.
    - cbn [map fold_left hevents H.run]. unfold verdict_rel. cbn [fst snd]. split; assumption.
    - cbn [map fold_left hevents H.run snd].
      pose proof (step_sim t h s ev Hrel Ht (Forall_inv Hwf)) as S.
      destruct (H.step hc s (hev_of t h ev)) as [s' v]. unfold verdict_rel in S. cbn [fst snd] in S.
      destruct v.
      + destruct S as [T' R']. apply IH; [exact R' | exact T' | exact (Forall_inv_tail Hwf)].
      + destruct S as [T' R']. rewrite (QF.torn_fold qc orc ocd _ _ T'). unfold verdict_rel. cbn [fst snd]. split; assumption.
      + destruct S as [T' R']. rewrite (QF.torn_fold qc orc ocd _ _ T'). unfold verdict_rel. cbn [fst snd]. split; assumption.
  Qed.

  Lemma init_rel t0 : rel Q.new_handler (H.init t0).
  Proof. split; [split; reflexivity|]. intros _. split; reflexivity. Qed.

  (* from a fresh connection: C06's run and C01/C07/C20's run agree on the verdict, the client buffer and
     the bytes the client socket has taken *)
  Corollary run_sim_fresh t0 tevs : Forall (fun te => wf_event (snd te)) tevs ->
    let h' := Q.run qc orc ocd (map snd tevs) in
    let '(s', v) := H.run hc (H.init t0) (hevents Q.new_handler tevs) in
    Cn.buffer (H.work s') = Q.buffer h' \/ v = H.Raised.
  Proof.
    intros Hwf. cbv zeta. pose proof (run_sim tevs _ _ (init_rel t0) eq_refl Hwf) as S.
    unfold Q.run. destruct (H.run hc (H.init t0) (hevents Q.new_handler tevs)) as [s' v].
    unfold verdict_rel in S. cbn [fst snd] in S. destruct v.
    - left. destruct S as [_ [[A _ _ _ _ _] _]]. exact A.
    - left. destruct S as [_ [A _]]. exact A.
    - right. reflexivity.
  Qed.
End FirstRequestHandler.

(* non-vacuity: a proxy plugin whose on_request_complete queues a 2-byte rejection and returns True; the client
   sends its request in one segment and then reads.  Both event loops: the 2 bytes are queued, must_flush is
   set, the flush of the second event delivers them and the connection is torn down. *)
Definition ex_qc : Q.config := {| Q.agent := bs "a"; Q.plugin_klasses := Some [[HTTP_PROXY]]; Q.max_send := 65536 |}.
Definition ex_hc : H.cfg := H.mkCfg 65536 [] 10%Z true.
Definition ex_orc (k : N) (p : parser) : list bytes * Q.orc_outcome := ([bs "no"], Q.RetBool true).
Definition ex_ocd (k : N) (p : parser) (hist : list bytes) (raw : bytes) : list bytes * Q.ocd_outcome := ([], Q.OcdReturn).
Definition ex_tevs : list (Z * Q.event) :=
  [ (1%Z, {| Q.ev_w := None; Q.ev_r := Some (Q.Data (bs "GET http://h/ HTTP/1.1" ++ CRLF ++ CRLF)) |});
    (2%Z, {| Q.ev_w := Some 10; Q.ev_r := None |}) ].
Example event_loops_example :
  let h' := Q.run ex_qc ex_orc ex_ocd (map snd ex_tevs) in
  let '(s', v) := H.run ex_hc (H.init 0%Z) (hevents ex_qc ex_orc ex_ocd Q.new_handler ex_tevs) in
  v = H.Teardown /\ Q.torn h' = true /\ Q.sent h' = bs "no" /\ Cn.sent (H.work s') = bs "no" /\
  Q.buffer h' = [] /\ Cn.buffer (H.work s') = [].
Proof. vm_compute. repeat split; reflexivity. Qed.
