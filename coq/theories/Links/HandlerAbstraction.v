(* Model coherence, part 3c: Net/Handler.v (C01/C07/C20) abstracts the HTTP side of a connection into
   ORACLE inputs of each event: [req] (what _parse_first_request + on_request_complete amounted to) and
   [cdata] (what the pipelined-request parser made of later client data).  This file shows how the
   CONCRETE computations of Net/Forward.v (real parser, real rebuild) instantiate these oracles
   ([req_of], [cdata_of]) and proves that Handler.handle_data, fed with the instantiated event, stays
   in simulation with Forward.handle_data: same completion / plugin / tunnel / upgrade flags, the
   bytes on the upstream connection (sent ++ pending) are the concatenation of Forward's queued
   pieces, the bytes on the client connection those of Forward's named packets; same return value /
   escaping exception.  So the C01/C07/C20 theorems (for all oracle values) apply to the concrete
   forward-proxy exchanges, and Handler's plumbing (ack on CONNECT, remainder hand-over, relay vs
   parse, sticky upgrade) is the one Forward has. *)
From PM Require Import Lib.Bytes Lib.BytesFacts Lib.PyStr Http.Url Http.Chunk Http.Parser Http.Builders Http.Upstream.
From PM Require Net.Conn Net.ConnFacts Net.Handler Net.Forward Net.ForwardFacts Links.ParseErrors Links.Rewrite Links.FirstRequestForward.
From Coq Require Import ZArith Lia.

Module Cn := PM.Net.Conn.
Module CF := PM.Net.ConnFacts.
Module H := PM.Net.Handler.
Module F := PM.Net.Forward.
Module FF := PM.Net.ForwardFacts.
Module LR := PM.Links.Rewrite.
Module LQ := PM.Links.FirstRequestForward.
Module PE := PM.Links.ParseErrors.

(* ================================================================== Forward-side facts: the upstream queue only grows *)
Definition appends (st st' : F.hstate) : Prop :=
  match F.h_upstream st, F.h_upstream st' with
  | None, None => True
  | Some up, Some up' => F.up_closed up' = F.up_closed up /\ exists x, F.up_queue up' = F.up_queue up ++ x
  | _, _ => False
  end.

Lemma appends_refl st : appends st st.
Proof. unfold appends. destruct (F.h_upstream st); [split; [reflexivity|exists []; rewrite app_nil_r; reflexivity]|exact I]. Qed.
Lemma appends_trans a b c : appends a b -> appends b c -> appends a c.
Proof.
  unfold appends. destruct (F.h_upstream a), (F.h_upstream b), (F.h_upstream c); try tauto.
  intros [C1 [x X]] [C2 [y Y]]. split; [congruence|]. exists (x ++ y). rewrite Y, X, app_assoc. reflexivity.
Qed.
Lemma appends_queue st up raw : F.h_upstream st = Some up ->
  appends st (F.set_upstream st (Some (F.queue_upstream up raw))).
Proof. intros H. unfold appends. rewrite H. cbn [F.h_upstream F.set_upstream]. split; [reflexivity|]. exists [raw]. reflexivity. Qed.
Lemma appends_pipeline st st' q : appends st st' -> appends st (F.set_pipeline st' q).
Proof. exact (fun H => H). Qed.

Lemma round_appends fc st raw : appends st (LR.st_of (fst (F.on_client_data_round fc st raw))).
Proof.
  unfold F.on_client_data_round, F.after_pipelined.
  destruct (F.h_upstream st) as [up|] eqn:Hu; [|apply appends_refl].
  destruct (F.up_closed up); [apply appends_refl|].
  destruct (is_complete (F.h_request st) && negb (is_https_tunnel (F.h_request st)));
    [|apply appends_queue; exact Hu].
  destruct (F.h_pipeline st) as [q|].
  - destruct ((negb (F.cf_upgrade_complete fc) || is_complete q) && F.is_connection_upgrade q);
      [apply appends_queue; exact Hu|].
    destruct (parse q raw) as [q'|e]; [|apply appends_refl].
    destruct (is_complete q'); [|apply (appends_pipeline st st), appends_refl].
    destruct (F.queue_request_for_upstream fc _ q') as [[q'' w]|e]; cbn [fst LR.st_of].
    + apply (appends_pipeline st). apply appends_queue. exact Hu.
    + apply (appends_pipeline st st), appends_refl.
  - destruct (parse (new_parser REQUEST_PARSER) raw) as [q'|e]; [|apply (appends_pipeline st st), appends_refl].
    destruct (is_complete q'); [|apply (appends_pipeline st st), appends_refl].
    destruct (F.queue_request_for_upstream fc _ q') as [[q'' w]|e]; cbn [fst LR.st_of].
    + apply (appends_pipeline st). apply appends_queue. exact Hu.
    + apply (appends_pipeline st st), appends_refl.
Qed.

Lemma loop_appends fc : forall fuel st raw, appends st (LR.st_of (F.on_client_data_loop fuel fc st raw)).
Proof.
  induction fuel as [|f IH]; intros st raw; cbn [F.on_client_data_loop]; [apply appends_refl|].
  pose proof (round_appends fc st raw) as A.
  destruct (F.on_client_data_round fc st raw) as [[[|] st'|e st'] rem]; cbn [fst LR.st_of] in *; try exact A.
  destruct rem as [r|]; [|exact A]. eapply appends_trans; [exact A|apply IH].
Qed.

Lemma ocd_appends fc st raw : appends st (LR.st_of (F.on_client_data fc st raw)).
Proof. apply loop_appends. Qed.

(* ---- which exceptions on_client_data lets escape ---- *)
Lemma qrfu_err_kinds fc t p e : F.queue_request_for_upstream fc t p = Err e -> PE.parser_exn e.
Proof.
  unfold F.queue_request_for_upstream. cbv zeta.
  set (r1 := F.del_headers p [F.PROXY_AUTHORIZATION; F.PROXY_CONNECTION]).
  assert (Hb : forall q, build (F.cf_agent fc) q (F.cf_disable fc) false None = Err e -> PE.parser_exn e).
  { intros q. unfold build. destruct (negb _); [intros H; inversion H; apply PE.pe_assert|].
    rewrite FF.get_body_or_chunks_wire. cbn [bind]. discriminate. }
  destruct t; cbn [negb bind].
  - destruct (build _ r1 _ false None) eqn:E; [discriminate|]. intros H; inversion H; subst. eapply Hb; exact E.
  - destruct (F.via_value fc r1) as [v|e0] eqn:Ev; cbn [bind].
    + destruct (build _ _ _ false None) eqn:E; [discriminate|]. intros H; inversion H; subst. eapply Hb; exact E.
    + intros H; inversion H; subst. unfold F.via_value in Ev.
      destruct (F.cf_via_append fc && has_header r1 F.L_VIA); [|discriminate].
      unfold header in Ev. destruct (headers r1); [|inversion Ev; apply PE.pe_key].
      destruct (dict_get _ _) as [[? ?]|]; inversion Ev. apply PE.pe_key.
Qed.

Lemma round_raise_kinds fc st raw e st' rem :
  F.on_client_data_round fc st raw = (F.Raised e st', rem) -> PE.parser_exn e.
Proof.
  unfold F.on_client_data_round, F.after_pipelined.
  destruct (F.h_upstream st) as [up|]; [|discriminate].
  destruct (F.up_closed up); [discriminate|].
  destruct (is_complete (F.h_request st) && negb (is_https_tunnel (F.h_request st))); [|discriminate].
  destruct (F.h_pipeline st) as [q|].
  - destruct ((negb (F.cf_upgrade_complete fc) || is_complete q) && F.is_connection_upgrade q); [discriminate|].
    destruct (parse q raw) as [q'|e0] eqn:Ep.
    + destruct (is_complete q'); [|discriminate].
      destruct (F.queue_request_for_upstream fc _ q') as [[q'' w]|e0] eqn:Eq; [discriminate|].
      intros H; inversion H; subst. eapply qrfu_err_kinds; exact Eq.
    + intros H; inversion H; subst. eapply PE.parse_exn_kinds; exact Ep.
  - destruct (parse (new_parser REQUEST_PARSER) raw) as [q'|e0] eqn:Ep.
    + destruct (is_complete q'); [|discriminate].
      destruct (F.queue_request_for_upstream fc _ q') as [[q'' w]|e0] eqn:Eq; [discriminate|].
      intros H; inversion H; subst. eapply qrfu_err_kinds; exact Eq.
    + intros H; inversion H; subst. eapply PE.parse_exn_kinds; exact Ep.
Qed.

Lemma loop_raise_kinds fc : forall fuel st raw e st',
  F.on_client_data_loop fuel fc st raw = F.Raised e st' -> PE.parser_exn e.
Proof.
  induction fuel as [|f IH]; intros st raw e st'; cbn [F.on_client_data_loop].
  - intros H; inversion H. apply PE.pe_oof.
  - destruct (F.on_client_data_round fc st raw) as [[[|] st1|e1 st1] rem] eqn:Er.
    + intros H; inversion H.
    + destruct rem as [r|]; [apply IH|discriminate].
    + intros H; inversion H; subst. eapply round_raise_kinds; exact Er.
Qed.

Lemma ocd_raise_kinds fc st raw e st' : F.on_client_data fc st raw = F.Raised e st' -> PE.parser_exn e.
Proof. apply loop_raise_kinds. Qed.

Lemma parser_exn_no_response k : PE.parser_exn (HttpProtocolException k) -> F.exc_response k = None.
Proof. intros H. destruct (H k eq_refl) as [-> | ->]; reflexivity. Qed.

(* ================================================================== the instantiation *)
Section Abs.
  Variable fc : F.fcfg.
  Variable ok : bool.
  Variable hc : H.cfg.
  Hypothesis Hupc : F.cf_upgrade_complete fc = true.        (* the repaired code, which Handler.v describes *)

  Definition pk : F.cpkt -> bytes := LR.pk (F.cf_agent fc).
  Hypothesis Hack : H.ack hc = pk F.TunnelEstablished.

  Definition upq (st : F.hstate) : list bytes := F.upstream_queue st.
  (* what a Forward step added *)
  Definition new_up (st st' : F.hstate) : list bytes := skipn (length (upq st)) (upq st').
  Definition new_cl (st st' : F.hstate) : list bytes := map pk (skipn (length (F.h_client st)) (F.h_client st')).
  Definition upg (st : F.hstate) : bool :=
    match F.h_pipeline st with Some q => is_complete q && F.is_connection_upgrade q | None => false end.
  Definition bufb (p : parser) : bytes := match buffer p with Some b => b | None => [] end.

  (* the [req] oracle: what _parse_first_request + on_request_complete amounted to *)
  Definition req_of (st : F.hstate) (data : bytes) : H.req_outcome :=
    match FF.catch (F.parse_first_request fc ok st data) with
    | F.Done false st1 =>
        if is_complete (F.h_request st1)
        then H.RProxy (is_https_tunnel (F.h_request st1)) (concat (upq st1)) (bufb (F.h_request st1))
        else H.RIncomplete
    | F.Done true st1 => H.RError (new_cl st st1)
    | F.Raised _ _ => H.RRaise
    end.

  (* the [cdata] oracle: what the pipelined-request parser + rebuild made of later client data *)
  Definition cdata_of (st : F.hstate) (raw : bytes) : H.cdata_outcome :=
    match F.on_client_data fc st raw with
    | F.Done _ st' => H.DForward (new_up st st') (upg st')
    | F.Raised (HttpProtocolException _) _ => H.DProto []
    | F.Raised _ _ => H.DRaise
    end.

  Definition with_oracles (ev : H.event) (r : H.req_outcome) (d : H.cdata_outcome) : H.event :=
    H.mkEvent (H.now ev) (H.c_r ev) (H.c_w ev) (H.u_r ev) (H.u_w ev) (H.c_send ev) (H.u_send ev)
              (H.c_recv ev) (H.u_recv ev) r d.

  (* ================================================================== the simulation relation *)
  Definition up_rel (st : F.hstate) (s : H.hstate) : Prop :=
    match F.h_upstream st, H.upstream s with
    | None, None => True
    | Some up, Some u => F.up_closed up = false /\ Cn.sent u ++ Cn.pending u = concat (F.up_queue up)
    | _, _ => False
    end.
  Definition cl_rel (st : F.hstate) (s : H.hstate) : Prop :=
    Cn.sent (H.work s) ++ Cn.pending (H.work s) = concat (map pk (F.h_client st)).

  Record hsim (st : F.hstate) (s : H.hstate) : Prop := {
    hs_complete : H.req_complete s = is_complete (F.h_request st);
    hs_plugin : H.plugin s = if F.h_plugin st then H.PProxy else H.PNone;
    hs_tunnel : is_complete (F.h_request st) = true -> H.is_tunnel s = is_https_tunnel (F.h_request st);
    hs_upg : H.pipeline_upgrade s = upg st;
    hs_up : up_rel st s;
    hs_client : cl_rel st s }.

  Definition hrel (o : F.outcome) (r : H.hstate * option bool) : Prop :=
    match o with
    | F.Done false st' => snd r = Some false /\ hsim st' (fst r)
    | F.Done true st' => snd r = Some true /\ cl_rel st' (fst r)
    | F.Raised e st' => snd r = None /\ cl_rel st' (fst r)
    end.

  Lemma pending_queue_all mvs c : Cn.sent (Cn.queue_all mvs c) ++ Cn.pending (Cn.queue_all mvs c) = (Cn.sent c ++ Cn.pending c) ++ concat mvs.
  Proof. apply CF.queue_all_conservation. Qed.

  Lemma client_queue_all_work mvs : forall s, H.work (H.client_queue_all mvs s) = Cn.queue_all mvs (H.work s).
  Proof. induction mvs as [|mv t IH]; intros s; [reflexivity|]. cbn [H.client_queue_all Cn.queue_all]. rewrite IH. reflexivity. Qed.

  (* ---------------------------------------------------------------- plugin.on_client_data *)
  Lemma ocd_sim ev st s raw : H.cdata ev = cdata_of st raw ->
    hsim st s -> is_complete (F.h_request st) = true -> F.h_plugin st = true ->
    hrel (FF.catch (F.on_client_data fc st raw)) (H.on_client_data ev s raw).
  Proof.
    intros Hcd [Hc Hp Ht Hg Hu Hcl] Hcomp Hpl. specialize (Ht Hcomp).
    unfold H.on_client_data. rewrite Hp, Hpl. unfold up_rel in Hu.
    destruct (F.h_upstream st) as [up|] eqn:Hfu; destruct (H.upstream s) as [u|] eqn:Hhu; try contradiction.
    2:{ (* no upstream: nothing happens *)
        assert (E : F.on_client_data fc st raw = F.Done false st).
        { apply FF.on_client_data_one. unfold F.on_client_data_round. rewrite Hfu. reflexivity. }
        rewrite E. cbn [FF.catch hrel fst snd]. split; [reflexivity|].
        split; try assumption. intros _; exact Ht. unfold up_rel. rewrite Hfu, Hhu. exact I. }
    destruct Hu as [Hclosed Hbytes].
    (* relaying [raw] verbatim *)
    assert (Hrelay : F.on_client_data_round fc st raw = (F.Done false (F.set_upstream st (Some (F.queue_upstream up raw))), None) ->
              hrel (FF.catch (F.on_client_data fc st raw))
                   (H.set_upstream (Some (Cn.queue raw u)) (H.note_cl_rcvd raw s), Some false)).
    { intros Er. rewrite (FF.on_client_data_one _ _ _ _ Er). cbn [FF.catch hrel fst snd]. split; [reflexivity|].
      split; try assumption.
      - intros _; exact Ht.
      - unfold up_rel. cbn [F.h_upstream F.set_upstream]. change (H.upstream (H.set_upstream _ _)) with (Some (Cn.queue raw u)).
        split; [exact Hclosed|]. rewrite CF.queue_conservation, Hbytes.
        cbn [F.up_queue F.queue_upstream]. rewrite concat_app. cbn [concat]. rewrite app_nil_r. reflexivity. }
    destruct (H.is_tunnel s) eqn:Htun.
    { apply Hrelay. unfold F.on_client_data_round. rewrite Hfu, Hclosed, Hcomp, <- Ht. reflexivity. }
    destruct (H.pipeline_upgrade s) eqn:Hpu.
    { apply Hrelay. unfold F.on_client_data_round. rewrite Hfu, Hclosed, Hcomp, <- Ht. cbn [negb andb].
      unfold upg in Hg. destruct (F.h_pipeline st) as [q|]; [|discriminate].
      rewrite Hupc. cbn [negb orb]. rewrite <- Hg. reflexivity. }
    (* the pipelined-request parser decides *)
    rewrite Hcd. unfold cdata_of.
    pose proof (LQ.ocd_keeps fc st raw) as [Nt (K1 & K2 & K3)].
    pose proof (ocd_appends fc st raw) as Ap.
    destruct (F.on_client_data fc st raw) as [[|] st'|e st'] eqn:Eo; cbn [LQ.never_true LQ.st_of LR.st_of] in *.
    - contradiction.
    - cbn [FF.catch hrel fst snd]. split; [reflexivity|].
      unfold appends in Ap. rewrite Hfu in Ap. destruct (F.h_upstream st') as [up'|] eqn:Hfu'; [|contradiction].
      destruct Ap as [Hcl' [x Hx]].
      assert (Enew : new_up st st' = x).
      { unfold new_up, upq, F.upstream_queue. rewrite Hfu, Hfu', Hx. rewrite skipn_app, skipn_all, Nat.sub_diag. reflexivity. }
      rewrite Enew. split.
      + cbn [H.req_complete H.set_pipeline_upgrade H.set_upstream H.note_cl_rcvd]. rewrite K3. exact Hc.
      + cbn [H.plugin H.set_pipeline_upgrade H.set_upstream H.note_cl_rcvd]. rewrite K2, Hpl. rewrite Hpl in Hp. exact Hp.
      + intros _. cbn [H.is_tunnel H.set_pipeline_upgrade H.set_upstream H.note_cl_rcvd]. rewrite K3, Htun. exact Ht.
      + reflexivity.
      + unfold up_rel. rewrite Hfu'. change (H.upstream (H.set_pipeline_upgrade _ (H.set_upstream ?v _))) with v.
        split; [congruence|]. rewrite pending_queue_all, Hbytes, Hx, concat_app. reflexivity.
      + unfold cl_rel. rewrite K1. exact Hcl.
    - assert (Hk : PE.parser_exn e) by (eapply ocd_raise_kinds; exact Eo).
      destruct e; cbn [FF.catch hrel fst snd];
        try (split; [reflexivity|unfold cl_rel; rewrite K1; exact Hcl]).
      rewrite (parser_exn_no_response k Hk). cbn [hrel fst snd]. split; [reflexivity|].
      unfold cl_rel. rewrite K1. exact Hcl.
  Qed.

  (* ---------------------------------------------------------------- what _parse_first_request leaves behind *)
  Lemma orc_shape st0 st1 : F.on_request_complete fc ok st0 = F.Done false st1 ->
    F.h_plugin st1 = F.h_plugin st0 /\ F.h_pipeline st1 = F.h_pipeline st0 /\
    state (F.h_request st1) = state (F.h_request st0) /\ buffer (F.h_request st1) = buffer (F.h_request st0) /\
    ((is_https_tunnel (F.h_request st1) = true /\
      F.h_upstream st1 = Some {| F.up_closed := false; F.up_queue := [] |} /\
      F.h_client st1 = F.h_client st0 ++ [F.TunnelEstablished]) \/
     (is_https_tunnel (F.h_request st1) = false /\
      (exists w, F.h_upstream st1 = Some {| F.up_closed := false; F.up_queue := [w] |}) /\
      F.h_client st1 = F.h_client st0)).
  Proof.
    unfold F.on_request_complete.
    assert (Hr : forall r, F.before_upstream_connection fc (F.h_request st0) = Ok r -> r = F.h_request st0).
    { unfold F.before_upstream_connection. intros r.
      destruct (F.cf_auth_code fc) as [[|c0 ct]|]; try (intros H; inversion H; reflexivity).
      destruct (Auth.auth_ok _ _); intros H; inversion H; reflexivity. }
    destruct (F.before_upstream_connection fc (F.h_request st0)) as [r|e] eqn:Eb; [|discriminate].
    rewrite (Hr r eq_refl). clear Hr Eb r.
    destruct (connect_upstream _ _ _); [|discriminate].
    destruct (negb ok); [discriminate|].
    destruct (is_https_tunnel (F.h_request st0)) eqn:Ht.
    - intros H; inversion H; subst. cbn [F.h_plugin F.h_pipeline F.h_request F.h_upstream F.h_client F.queue_client F.set_upstream].
      repeat split; try reflexivity. left. repeat split; try reflexivity. exact Ht.
    - destruct (F.queue_request_for_upstream fc false (F.h_request st0)) as [[r' w]|e] eqn:Eq; [|discriminate].
      intros H; inversion H; subst.
      destruct (LQ.qrfu_post _ _ _ _ _ Eq) as [(_ & Hs & _ & _ & _ & _ & _ & _ & _ & Htn & Hb) _].
      cbn [F.h_plugin F.h_pipeline F.h_request F.h_upstream F.h_client F.set_request F.set_upstream].
      repeat split; try assumption. right. repeat split.
      + rewrite Htn. exact Ht.
      + eexists. reflexivity.
  Qed.

  (* the named packets a step added *)
  Lemma new_cl_app st st' X : F.h_client st' = F.h_client st ++ X -> new_cl st st' = map pk X.
  Proof. intros E. unfold new_cl. rewrite E, skipn_app, skipn_all, Nat.sub_diag. reflexivity. Qed.

  Lemma cl_rel_added st st' s X pieces : cl_rel st s -> F.h_client st' = F.h_client st ++ X -> pieces = map pk X ->
    Cn.sent (Cn.queue_all pieces (H.work s)) ++ Cn.pending (Cn.queue_all pieces (H.work s)) = concat (map pk (F.h_client st')).
  Proof.
    intros Hc E ->. rewrite pending_queue_all, Hc, E, map_app, concat_app. reflexivity.
  Qed.

  Lemma pfr_raised_client st data e st1 : F.parse_first_request fc ok st data = F.Raised e st1 ->
    exists X, F.h_client st1 = F.h_client st ++ X /\ ((forall k, e <> HttpProtocolException k) -> X = []).
  Proof.
    unfold F.parse_first_request.
    destruct (parse (F.h_request st) data) as [r|e0].
    2:{ intros H; inversion H; subst. exists [F.BadRequest]. split; [reflexivity|].
        intros Hn. exfalso. apply (Hn 7). reflexivity. }
    destruct (negb (is_complete r)); [discriminate|].
    destruct (http_handler_protocol r); try discriminate.
    unfold F.on_request_complete.
    destruct (F.before_upstream_connection _ _) as [a|e1];
      [|intros H; inversion H; subst; exists []; split; [rewrite app_nil_r; reflexivity|reflexivity]].
    destruct (connect_upstream _ _ _);
      [|intros H; inversion H; subst; exists []; split; [rewrite app_nil_r; reflexivity|reflexivity]].
    destruct (negb ok);
      [intros H; inversion H; subst; exists []; split; [rewrite app_nil_r; reflexivity|reflexivity]|].
    destruct (is_https_tunnel a); [discriminate|].
    destruct (F.queue_request_for_upstream _ _ a) as [[? ?]|]; [discriminate|].
    intros H; inversion H; subst. exists []. split; [rewrite app_nil_r; reflexivity|reflexivity].
  Qed.

  (* the event handed to Handler.handle_data for Forward state [st] and segment [data] *)
  Definition ev_of (ev : H.event) (st : F.hstate) (data : bytes) : H.event :=
    if is_complete (F.h_request st) then with_oracles ev (H.req ev) (cdata_of st data)
    else match F.parse_first_request fc ok st data with
         | F.Done false st1 =>
             with_oracles ev (req_of st data)
               (cdata_of (F.set_request st1 (F.clear_buffer (F.h_request st1))) (bufb (F.h_request st1)))
         | _ => with_oracles ev (req_of st data) H.DNothing
         end.

  (* MAIN LINK of this file *)
  Theorem handle_data_sim ev st s data : hsim st s ->
    hrel (F.handle_data fc ok st data) (H.handle_data hc (ev_of ev st data) s data).
  Proof.
    intros Hs. pose proof Hs as [Hc Hp Ht Hg Hu Hcl].
    unfold H.handle_data, ev_of. rewrite Hc.
    destruct (is_complete (F.h_request st)) eqn:Hcomp; cbn [negb].
    - (* later data *)
      assert (Hst : state (F.h_request st) = COMPLETE) by (apply N.eqb_eq; exact Hcomp).
      destruct (F.h_plugin st) eqn:Hpl.
      + rewrite (FF.handle_data_later fc ok st data Hst Hpl). apply ocd_sim; try assumption. reflexivity.
      + unfold F.handle_data. rewrite Hst, Hpl. cbn [N.eqb Pos.eqb negb COMPLETE].
        unfold H.on_client_data. rewrite Hp. cbn [hrel fst snd]. split; [reflexivity|exact Hs].
    - (* the first request *)
      assert (Hst : state (F.h_request st) <> COMPLETE) by (apply N.eqb_neq; exact Hcomp).
      rewrite (FF.handle_data_first fc ok st data Hst).
      unfold H.parse_first_request.
      (* the shape of Forward's _parse_first_request *)
      unfold req_of.
      destruct (F.parse_first_request fc ok st data) as [[|] st1|e st1] eqn:Epfr.
      + (* rejected with a 400 *)
        cbn [F.first_remainder FF.catch with_oracles H.req].
        assert (Hx : exists X, F.h_client st1 = F.h_client st ++ X).
        { unfold F.parse_first_request in Epfr.
          destruct (parse (F.h_request st) data) as [r|]; [|discriminate].
          destruct (negb (is_complete r)); [discriminate|].
          destruct (http_handler_protocol r); try (inversion Epfr; subst; eexists; reflexivity).
          unfold F.on_request_complete in Epfr.
          destruct (F.before_upstream_connection _ _) as [a|]; [|discriminate].
          destruct (connect_upstream _ _ _); [|discriminate].
          destruct (negb ok); [discriminate|].
          destruct (is_https_tunnel a); [discriminate|].
          destruct (F.queue_request_for_upstream _ _ a) as [[? ?]|]; discriminate. }
        destruct Hx as [X HX]. cbn [hrel fst snd]. split; [reflexivity|].
        unfold cl_rel. rewrite client_queue_all_work.
        eapply cl_rel_added; [exact Hcl|exact HX|apply new_cl_app; exact HX].
      + (* not rejected *)
        cbn [FF.catch].
        destruct (is_complete (F.h_request st1)) eqn:Hc1.
        * (* complete: HttpProxyPlugin connected *)
          assert (Hshape : F.h_plugin st1 = true /\ F.h_pipeline st1 = F.h_pipeline st /\
                   ((is_https_tunnel (F.h_request st1) = true /\
                     F.h_upstream st1 = Some {| F.up_closed := false; F.up_queue := [] |} /\
                     F.h_client st1 = F.h_client st ++ [F.TunnelEstablished]) \/
                    (is_https_tunnel (F.h_request st1) = false /\
                     (exists w, F.h_upstream st1 = Some {| F.up_closed := false; F.up_queue := [w] |}) /\
                     F.h_client st1 = F.h_client st))).
          { unfold F.parse_first_request in Epfr.
            destruct (parse (F.h_request st) data) as [r|]; [|discriminate].
            destruct (negb (is_complete r)) eqn:Hcr.
            { inversion Epfr; subst. cbn [F.h_request F.set_request] in Hc1. rewrite Hc1 in Hcr. discriminate. }
            destruct (http_handler_protocol r); try discriminate.
            destruct (orc_shape _ _ Epfr) as (S1 & S2 & _ & _ & S5). split; [exact S1|]. split; [exact S2|exact S5]. }
          destruct Hshape as (Hpl1 & Hpipe1 & Hcases).
          cbn [with_oracles H.req].
          set (s1 := H.set_request true H.PProxy (is_https_tunnel (F.h_request st1)) s).
          (* the state pair right after on_request_complete *)
          assert (Hs1 : exists s2,
                    (if is_https_tunnel (F.h_request st1)
                     then (H.client_queue (H.ack hc) (H.set_upstream (Some Cn.new_conn) s1), Some false)
                     else (H.set_upstream (Some (Cn.queue (concat (upq st1)) Cn.new_conn)) s1, Some false)) = (s2, Some false)
                    /\ hsim st1 s2 /\ H.req_complete s2 = true /\ H.plugin s2 = H.PProxy).
          { destruct Hcases as [(Htn & Hup & Hcli)|(Htn & [w Hup] & Hcli)]; rewrite Htn.
            - eexists. split; [reflexivity|]. split; [|split; reflexivity]. split.
              + symmetry. exact Hc1.
              + rewrite Hpl1. reflexivity.
              + intros _. cbn [H.is_tunnel H.client_queue H.set_upstream]. subst s1. cbn [H.is_tunnel H.set_request]. reflexivity.
              + subst s1. cbn [H.pipeline_upgrade H.client_queue H.set_upstream H.set_request]. unfold upg. rewrite Hpipe1. exact Hg.
              + unfold up_rel. rewrite Hup. cbn [H.upstream H.client_queue H.set_upstream]. split; reflexivity.
              + unfold cl_rel. cbn [H.work H.client_queue H.set_upstream]. subst s1. cbn [H.work H.set_request].
                rewrite CF.queue_conservation. unfold cl_rel in Hcl. rewrite Hcl, Hcli, map_app, concat_app, Hack.
                cbn [map concat]. rewrite app_nil_r. reflexivity.
            - eexists. split; [reflexivity|]. split; [|split; reflexivity]. split.
              + symmetry. exact Hc1.
              + rewrite Hpl1. reflexivity.
              + intros _. subst s1. reflexivity.
              + subst s1. cbn [H.pipeline_upgrade H.set_upstream H.set_request]. unfold upg. rewrite Hpipe1. exact Hg.
              + unfold up_rel. rewrite Hup. cbn [H.upstream H.set_upstream]. split; [reflexivity|].
                unfold upq, F.upstream_queue. rewrite Hup. cbn [F.up_queue].
                rewrite CF.queue_conservation. reflexivity.
              + unfold cl_rel. subst s1. cbn [H.work H.set_upstream H.set_request]. rewrite Hcli. exact Hcl. }
          destruct Hs1 as (s2 & -> & Hs2 & Hrc2 & Hp2).
          cbn [H.req_rem]. cbn [F.first_remainder]. rewrite Hc1, Hpl1. cbn [andb].
          unfold bufb. destruct (buffer (F.h_request st1)) as [[|b0 bt]|] eqn:Hbuf.
          -- cbn [hrel fst snd]. split; [reflexivity|exact Hs2].
          -- rewrite Hrc2, Hp2.
             (* the remainder of the segment goes to plugin.on_client_data *)
             assert (Hs2c : hsim (F.set_request st1 (F.clear_buffer (F.h_request st1))) s2).
             { destruct Hs2 as [A1 A2 A3 A4 A5 A6]. split; try assumption. }
             apply ocd_sim; try assumption; try reflexivity.
          -- cbn [hrel fst snd]. split; [reflexivity|exact Hs2].
        * (* still incomplete: nothing but the parser state changed *)
          cbn [with_oracles H.req H.req_rem F.first_remainder].
          assert (Efr : (match buffer (F.h_request st1) with
                         | Some (b0 :: bt) => if is_complete (F.h_request st1) && F.h_plugin st1
                             then F.on_client_data fc (F.set_request st1 (F.clear_buffer (F.h_request st1))) (b0 :: bt)
                             else F.Done false st1
                         | _ => F.Done false st1 end) = F.Done false st1).
          { rewrite Hc1. destruct (buffer (F.h_request st1)) as [[|? ?]|]; reflexivity. }
          rewrite Efr. cbn [hrel fst snd]. split; [reflexivity|].
          assert (Hst1 : exists r, st1 = F.set_request st r).
          { unfold F.parse_first_request in Epfr.
            destruct (parse (F.h_request st) data) as [r|]; [|discriminate].
            destruct (negb (is_complete r)) eqn:Hr; [inversion Epfr; eauto|].
            destruct (http_handler_protocol r); try discriminate.
            destruct (orc_shape _ _ Epfr) as (_ & _ & S3 & _).
            exfalso. apply negb_false_iff in Hr. unfold is_complete in Hc1, Hr. rewrite S3 in Hc1.
            cbn [F.h_request F.set_plugin F.set_request] in Hc1. rewrite Hr in Hc1. discriminate. }
          destruct Hst1 as [r ->]. cbn [fst]. split.
          -- rewrite Hc. symmetry. exact Hc1.
          -- exact Hp.
          -- intros Hx. rewrite Hx in Hc1. discriminate.
          -- exact Hg.
          -- exact Hu.
          -- exact Hcl.
      + (* an exception left _parse_first_request *)
        cbn [F.first_remainder].
        destruct (pfr_raised_client _ _ _ _ Epfr) as (X & HX & Hnil).
        destruct e; cbn [FF.catch with_oracles H.req hrel fst snd];
          try (split; [reflexivity|]; unfold cl_rel; rewrite HX, Hnil, app_nil_r by (intros k0 Hk; discriminate); exact Hcl).
        (* HttpProtocolException: a response (if any) is queued and handle_data returns True *)
        set (st1' := match F.exc_response k with Some c0 => F.queue_client st1 c0 | None => st1 end).
        assert (HX' : exists X', F.h_client st1' = F.h_client st ++ X').
        { subst st1'. destruct (F.exc_response k) as [c0|]; [|eauto].
          cbn [F.h_client F.queue_client]. rewrite HX, <- app_assoc. eauto. }
        destruct HX' as [X' HX'].
        split; [reflexivity|]. unfold cl_rel. rewrite client_queue_all_work.
        eapply cl_rel_added; [exact Hcl|exact HX'|apply new_cl_app; exact HX'].
  Qed.
End Abs.

Lemma init_hsim fc t0 : hsim fc F.init_state (H.init t0).
Proof. split; try reflexivity; try exact I; try (intros H; discriminate H). Qed.

(* non-vacuity: CONNECT followed by tunnel payload in the same segment: ack to the client, payload upstream, in both *)
Definition hc0 : H.cfg := H.mkCfg 65536 (LR.pk (bs "proxy.py v2.4") F.TunnelEstablished) 10%Z true.
Definition ev0 : H.event :=
  H.mkEvent 0%Z true false false false (Cn.Accept 0) (Cn.Accept 0) (H.RData []) (H.RData []) H.RIncomplete H.DNothing.
Example handler_abstraction_example :
  let data := bs "CONNECT h:443 HTTP/1.1" ++ CRLF ++ CRLF ++ bs "hello" in
  match F.handle_data LR.fc0 true F.init_state data,
        H.handle_data hc0 (ev_of LR.fc0 true ev0 F.init_state data) (H.init 0%Z) data with
  | F.Done false st', (s', Some false) =>
      F.upstream_queue st' = [bs "hello"] /\ H.pending_upstream s' = bs "hello" /\
      H.pending_client s' = H.ack hc0 /\ H.is_tunnel s' = true
  | _, _ => False
  end.
Proof. vm_compute. repeat split; reflexivity. Qed.
