(* Model coherence, part 6: URLs.
   Http/Url.v (Url.from_bytes) is the one model of proxy/http/url.py.  Net/Reverse.v (C12) does not
   call it: "the configured upstream URL is ALREADY PARSED" — a record Reverse.url with an N port.
   Net/Conversation.v (C04) does call Url.from_bytes on the raw route URL and then computes the
   upstream port / Host value / rebuilt request itself.
   This file
     * defines the abstraction Url.url -> Reverse.url and proves that Url.from_bytes of the RENDERING of
       any well-formed configuration URL (scheme http|https, RFC 3986 host incl. bracketed IPv6, optional
       decimal port, optional path) yields exactly that record: C12's premise is discharged for such URLs;
     * proves that C04's per-request computations on the parsed URL (port defaulting, Host rewriting,
       request rebuilding) equal C12's on the abstraction. *)
From PM Require Import Lib.Bytes Lib.BytesFacts Lib.PyStr Lib.PyStrFacts Http.Url Http.UrlSpec Http.UrlFacts
  Http.Chunk Http.Parser Http.Builders.
From PM Require Net.Reverse Net.Conversation Links.Builders.
From Coq Require Import ZArith Lia.

Module V := PM.Net.Reverse.
Module K := PM.Net.Conversation.
Module LB := PM.Links.Builders.

(* the abstraction: userinfo dropped (reverse.py never looks at it), port Z -> N *)
Definition rurl_of (u : url) : V.url :=
  V.mkUrl (u_scheme u) (u_hostname u) (option_map Z.to_N (u_port u)) (u_remainder u).

(* ------------------------------------------------------------------ configuration URLs *)
Inductive cfg_scheme := SHttp | SHttps.
Definition scheme_text (s : cfg_scheme) : bytes := match s with SHttp => HTTP_PROTO | SHttps => HTTPS_PROTO end.

Definition render_cfg_url (s : cfg_scheme) (h : UrlSpec.host) (pt : option bytes) (pa : option bytes) : bytes :=
  scheme_text s ++ bs "://" ++ host_text h ++ render_port pt ++ render_path pa.

Definition wf_cfg_url (h : UrlSpec.host) (pt : option bytes) (pa : option bytes) : bool :=
  wf_host h && match pt with Some p => wf_port p | None => true end &&
  match pa with Some p => starts_with_slash p | None => true end.

Lemma from_bytes_https auth pa :
  ~ In SLASH auth -> match pa with Some p => starts_with_slash p = true | None => True end ->
  from_bytes DEFAULT_ALLOWED_URL_SCHEMES (HTTPS_PROTO ++ bs "://" ++ auth ++ render_path pa) =
  do '(u, p, h, pt) <- parse_authority auth;
  Ok {| u_scheme := Some HTTPS_PROTO; u_username := u; u_password := p; u_hostname := Some h;
        u_port := pt; u_remainder := pa |}.
Proof.
  intros Ha Hpa.
  assert (Hsplit : split_once [SLASH] (auth ++ render_path pa) =
                   match pa with Some p => Some (auth, tl p) | None => None end /\
                   match pa with Some p => SLASH :: tl p = p | None => True end).
  { destruct pa as [[|x q]|]; cbn [render_path starts_with_slash] in *; try discriminate.
    - apply N.eqb_eq in Hpa. subst x. cbn [tl]. split; [now apply split_once_byte_notin|reflexivity].
    - rewrite app_nil_r. split; [now apply split_once_byte_none|exact I]. }
  destruct Hsplit as [Hs Hq].
  change (HTTPS_PROTO ++ bs "://" ++ auth ++ render_path pa)
    with (104 :: ([116; 116; 112; 115; 58; 47; 47] ++ auth ++ render_path pa)).
  rewrite from_bytes_noslash by reflexivity.
  assert (Hsp : split_once (bytes_of_string "://") (104 :: [116; 116; 112; 115; 58; 47; 47] ++ auth ++ render_path pa)
                = Some (HTTPS_PROTO, auth ++ render_path pa)) by reflexivity.
  rewrite Hsp.
  change (mem_bytes HTTPS_PROTO DEFAULT_ALLOWED_URL_SCHEMES) with true. cbv iota. cbn [bind].
  rewrite Hs. destruct pa as [p|].
  - rewrite Hq. reflexivity.
  - cbn [render_path]. rewrite app_nil_r. reflexivity.
Qed.

(* Url.from_bytes inverts the rendering of a well-formed configuration URL *)
Theorem cfg_url_roundtrip s h pt pa : wf_cfg_url h pt pa = true ->
  from_bytes DEFAULT_ALLOWED_URL_SCHEMES (render_cfg_url s h pt pa) =
  Ok {| u_scheme := Some (scheme_text s); u_username := None; u_password := None;
        u_hostname := Some (host_text h); u_port := option_map port_value pt; u_remainder := pa |}.
Proof.
  intros H. unfold wf_cfg_url in H.
  apply andb_true_iff in H as [H Hpa]. apply andb_true_iff in H as [Hh Hpt].
  assert (Hpt' : match pt with Some q => wf_port q = true | None => True end) by (destruct pt; auto).
  assert (Hpa' : match pa with Some q => starts_with_slash q = true | None => True end) by (destruct pa; auto).
  assert (Hns : ~ In SLASH (host_text h ++ render_port pt)) by apply (hostport_no_at h pt Hh Hpt').
  pose proof (parse_authority_wf None h pt I Hh Hpt') as PA.
  cbn [render_userinfo app ui_user ui_pass] in PA.
  unfold render_cfg_url.
  replace (host_text h ++ render_port pt ++ render_path pa)
    with ((host_text h ++ render_port pt) ++ render_path pa) by (rewrite <- app_assoc; reflexivity).
  destruct s; cbn [scheme_text].
  - change (HTTP_PROTO ++ bs "://" ++ (host_text h ++ render_port pt) ++ render_path pa)
      with (HTTP_SCHEME_PREFIX ++ (host_text h ++ render_port pt) ++ render_path pa).
    rewrite (from_bytes_http _ pa Hns Hpa'), PA. cbn [bind]. destruct pt; reflexivity.
  - rewrite (from_bytes_https _ pa Hns Hpa'), PA. cbn [bind]. destruct pt; reflexivity.
Qed.

(* C12's "already parsed URL", obtained from the bytes of the configuration *)
Corollary cfg_url_is_reverse_record s h pt pa : wf_cfg_url h pt pa = true ->
  match from_bytes DEFAULT_ALLOWED_URL_SCHEMES (render_cfg_url s h pt pa) with
  | Ok u => rurl_of u = V.mkUrl (Some (scheme_text s)) (Some (host_text h)) (option_map digits_val pt) pa
  | Err _ => False
  end.
Proof.
  intros H. rewrite (cfg_url_roundtrip s h pt pa H). unfold rurl_of. cbn [u_scheme u_hostname u_port u_remainder].
  destruct pt as [p|]; cbn [option_map]; [|reflexivity].
  unfold port_value. rewrite N2Z.id. reflexivity.
Qed.

(* such a record satisfies what C12's connect_and_forward asserts: a non-empty host *)
Lemma cfg_url_hostname_truthy h : wf_host h = true -> V.opt_truthy (Some (host_text h)) = true.
Proof.
  intros H. destruct h as [b|b|b]; cbn [host_text V.opt_truthy]; cbn [wf_host] in H.
  - destruct b; [discriminate|reflexivity].
  - destruct b; [discriminate|reflexivity].
  - reflexivity.
Qed.

Example cfg_url_example :
  from_bytes DEFAULT_ALLOWED_URL_SCHEMES (bs "https://[::1]:8443/get?x=1") =
  Ok {| u_scheme := Some HTTPS_PROTO; u_username := None; u_password := None; u_hostname := Some (bs "[::1]");
        u_port := Some 8443%Z; u_remainder := Some (bs "/get?x=1") |} /\
  wf_cfg_url (IPv6 (bs "::1")) (Some (bs "8443")) (Some (bs "/get?x=1")) = true /\
  render_cfg_url SHttps (IPv6 (bs "::1")) (Some (bs "8443")) (Some (bs "/get?x=1")) = bs "https://[::1]:8443/get?x=1".
Proof. repeat split; vm_compute; reflexivity. Qed.

(* ------------------------------------------------------------------ C04's reverse proxy step vs C12's *)
Definition port_nonneg (u : url) : Prop := forall z, u_port u = Some z -> (0 <= z)%Z.

Lemma scheme_is_same u s : K.scheme_is u s = V.scheme_is (rurl_of u) s.
Proof. reflexivity. Qed.

Theorem reverse_upstream_port_agree u : port_nonneg u ->
  (if K.scheme_is u HTTP_PROTO then K.port_or u 80%Z else K.port_or u 443%Z) = Z.of_N (V.upstream_port (rurl_of u)).
Proof.
  intros Hp. unfold V.upstream_port. rewrite <- scheme_is_same. change V.HTTP_PROTO with HTTP_PROTO.
  assert (E : forall d, K.port_or u (Z.of_N d) = Z.of_N (V.port_or (rurl_of u) d)).
  { intros d. unfold K.port_or, V.port_or, rurl_of. cbn [V.u_port]. destruct (u_port u) as [z|] eqn:Hz; cbn [option_map]; [|reflexivity].
    pose proof (Hp z Hz) as Hz0.
    destruct (Z.eqb_spec z 0) as [->|Hne]; [reflexivity|].
    replace (Z.to_N z =? 0) with false by (symmetry; apply N.eqb_neq; lia).
    rewrite Z2N.id by exact Hz0. reflexivity. }
  destruct (K.scheme_is u HTTP_PROTO); [apply (E 80)|apply (E 443)].
Qed.

Lemma bytes_of_Z_nonneg z : (0 <= z)%Z -> bytes_of_Z z = dec_of_N (Z.to_N z).
Proof. intros H. unfold bytes_of_Z, dec_of_Z. destruct z; try reflexivity. lia. Qed.

(* the Host value of --rewrite-host-header *)
Theorem reverse_host_value_agree u (hx : N) (ht : bytes) : port_nonneg u -> u_hostname u = Some (hx :: ht) ->
  (hx :: ht) ++ match u_port u with Some p => [COLON] ++ bytes_of_Z p | None => [] end = V.host_value (rurl_of u).
Proof.
  intros Hp Hh. unfold V.host_value, rurl_of. cbn [V.u_hostname V.u_port V.opt_bytes]. rewrite Hh.
  destruct (u_port u) as [z|] eqn:Hz; cbn [option_map]; [|reflexivity].
  rewrite (bytes_of_Z_nonneg z (Hp z Hz)). reflexivity.
Qed.

Lemma request_of_parser_set_path rq x :
  LB.request_of_parser (K.set_path rq x) = V.set_path (LB.request_of_parser rq) x.
Proof. reflexivity. Qed.

(* the rebuilt request: C04 calls the shared HttpParser.build on the parser record, C12 its own copy
   on its request record (disable_headers = DEFAULT_DISABLE_HEADERS = [] in both) *)
Theorem reverse_forwarded_bytes_agree ua rq rem hv :
  is_request (ty rq) = true ->
  build ua (K.set_path rq rem) [] false hv =
  V.build DEFAULT_BUFFER_SIZE [] (V.set_path (LB.request_of_parser rq) rem) hv.
Proof.
  intros Hty. rewrite <- request_of_parser_set_path.
  symmetry. apply LB.reverse_build_is_Builders_build. exact Hty.
Qed.
