(* Correspondence relation for C18: a case carries a history and what the real EventDispatcher
   (driven with scripted channel objects) did with it; check_case runs the model on the history
   and compares every observable: per-call outcome, subscriber table (in dict order), and for
   every channel object the list of messages received and the number of close() calls. *)
From PM Require Import Lib.Bytes Event.Dispatcher.

Definition msg_eqb (x y : msg) : bool :=
  match x, y with
  | MSubscribed, MSubscribed | MUnsubscribed, MUnsubscribed | MShutdown, MShutdown => true
  | MEv a, MEv b => N.eqb a b
  | _, _ => false
  end.

Fixpoint list_eqb {A} (eqb : A -> A -> bool) (x y : list A) : bool :=
  match x, y with
  | [], [] => true
  | a :: x', b :: y' => eqb a b && list_eqb eqb x' y'
  | _, _ => false
  end.

Definition pair_eqb (x y : N * N) : bool := N.eqb (fst x) (fst y) && N.eqb (snd x) (snd y).

(* canonical code of how a call ended; the harness uses the same numbering *)
Definition res_code (r : res unit) : N :=
  match r with
  | Ret _ => 0
  | Raise (ExChan BrokenPipe) => 1
  | Raise (ExChan EOFErr) => 2
  | Raise (ExChan OSErr) => 3
  | Raise ExKeyError => 4
  | Raise ExQueue => 3
  | Raise (ExChan OtherErr) => 5
  end.

Definition chan_obs := (chan * (N * list msg))%type.     (* channel, close() calls, received *)

Definition chans_ok (w : world) (chs : list chan_obs) : bool :=
  forallb (fun o => let s := chans w (fst o) in
                    N.eqb (c_closes s) (fst (snd o)) && list_eqb msg_eqb (c_rcvd s) (snd (snd o))) chs.

Inductive case :=
| CSteps (h : list op) (outs : list N) (subs : list (N * N)) (chs : list chan_obs)
| CRun (h : list op) (raised : N) (consumed : N) (subs : list (N * N)) (chs : list chan_obs)
| CRunQ (h : list qitem) (raised : N) (consumed : N) (subs : list (N * N)) (chs : list chan_obs)
(* cross-validation of the harness oracle: what the Python reference expected_view expects for every
   channel must be what the Coq reference `view` (proved equal to the model, C18_view) computes *)
| CView (h : list op) (chs : list chan_obs).

Definition check_case (c : case) : bool :=
  match c with
  | CSteps h outs subs chs =>
      let w := steps cfg_fixed init h in
      list_eqb N.eqb (map res_code (outcomes cfg_fixed init h)) outs
      && list_eqb pair_eqb (subscribers w) subs
      && chans_ok w chs
  | CRun h raised consumed subs chs =>
      match run cfg_fixed init h with
      | (w, r, n) =>
          N.eqb (res_code r) raised && N.eqb n consumed
          && list_eqb pair_eqb (subscribers w) subs
          && chans_ok w chs
      end
  | CView h chs =>
      forallb (fun o => let s := snd (view (fst o) h) in
                        N.eqb (c_closes s) (fst (snd o)) && list_eqb msg_eqb (c_rcvd s) (snd (snd o))) chs
  | CRunQ h raised consumed subs chs =>
      match run_q cfg_fixed init h with
      | (w, r, n) =>
          N.eqb (res_code r) raised && N.eqb n consumed
          && list_eqb pair_eqb (subscribers w) subs
          && chans_ok w chs
      end
  end.
