(* C18 — lemmas about the dispatcher model.  Structure:
   1. the ordered dict (keys unique), 2. channel-state algebra, 3. closed-form description of one
   step (step_spec) for every catch configuration that tolerates all channel errors,
   4. the theorems of Props/C18.v derived from the closed form. *)
From PM Require Import Lib.Bytes Event.Dispatcher.
Local Open Scope N_scope.

(* ------------------------------------------------------------------ 1. dict *)
Definition negkey (a : sub_id) (p : sub_id * chan) : bool := negb (N.eqb (fst p) a).
Definition wf (w : world) : Prop := NoDup (dkeys (subscribers w)).

Lemma dget_some_in a c d : dget a d = Some c -> In (a, c) d.
Proof.
  induction d as [|[a' c'] t IH]; cbn [dget]; [discriminate|].
  destruct (N.eqb_spec a a') as [->|Hne]; intros H.
  - injection H as ->. now left.
  - right. now apply IH.
Qed.

Lemma dget_none_notin a d : dget a d = None -> ~ In a (dkeys d).
Proof.
  induction d as [|[a' c'] t IH]; cbn [dget dkeys map fst]; [intros _ []|].
  destruct (N.eqb_spec a a') as [->|Hne]; [discriminate|].
  intros H [He|Hin]; [congruence|]. now apply IH.
Qed.

Lemma in_keys a c d : In (a, c) d -> In a (dkeys d).
Proof. intros H. unfold dkeys. change a with (fst (a, c)). now apply in_map. Qed.

Lemma dget_in a c d : NoDup (dkeys d) -> In (a, c) d -> dget a d = Some c.
Proof.
  induction d as [|[a' c'] t IH]; cbn [dget dkeys map fst]; [intros _ []|].
  intros Hnd [He|Hin]; inversion Hnd as [|? ? Hni Hnd']; subst.
  - injection He as -> ->. now rewrite N.eqb_refl.
  - destruct (N.eqb_spec a a') as [->|Hne].
    + exfalso. apply Hni. eapply in_keys; eassumption.
    + now apply IH.
Qed.

Lemma dhas_in_keys a d : dhas a d = true <-> In a (dkeys d).
Proof.
  unfold dhas. destruct (dget a d) as [c|] eqn:E.
  - split; [intros _|reflexivity]. eapply in_keys, dget_some_in; eassumption.
  - split; [discriminate|]. intros H. exfalso. eapply dget_none_notin; eassumption.
Qed.

Lemma filter_negkey_notin a d : ~ In a (dkeys d) -> filter (negkey a) d = d.
Proof.
  induction d as [|[a' c'] t IH]; cbn [filter dkeys map fst]; [reflexivity|].
  intros H. unfold negkey at 1; cbn [fst].
  destruct (N.eqb_spec a' a) as [->|Hne]; cbn [negb].
  - exfalso. apply H. now left.
  - f_equal. apply IH. intros Hin. apply H. now right.
Qed.

Lemma ddel_filter a d : NoDup (dkeys d) -> In a (dkeys d) -> ddel a d = Some (filter (negkey a) d).
Proof.
  induction d as [|[a' c'] t IH]; cbn [ddel dkeys map fst filter]; [intros _ []|].
  intros Hnd Hin. inversion Hnd as [|? ? Hni Hnd']; subst.
  unfold negkey at 1; cbn [fst]. rewrite (N.eqb_sym a' a).
  destruct (N.eqb_spec a a') as [->|Hne]; cbn [negb].
  - now rewrite filter_negkey_notin.
  - destruct Hin as [He|Hin]; [congruence|]. now rewrite IH.
Qed.

Lemma keys_filter_incl (P : sub_id * chan -> bool) d a : In a (dkeys (filter P d)) -> In a (dkeys d).
Proof.
  unfold dkeys. rewrite !in_map_iff. intros [p [Hp Hin]]. apply filter_In in Hin as [Hin _]. eauto.
Qed.

Lemma NoDup_keys_filter (P : sub_id * chan -> bool) d : NoDup (dkeys d) -> NoDup (dkeys (filter P d)).
Proof.
  induction d as [|p t IH]; cbn [filter dkeys map]; [auto|].
  intros Hnd. inversion Hnd as [|? ? Hni Hnd']; subst.
  destruct (P p); cbn [map]; [|now apply IH].
  constructor; [|now apply IH]. intros Hin. apply Hni. eapply keys_filter_incl; eassumption.
Qed.

Lemma dkeys_dset a c d : dkeys (dset a c d) = if dhas a d then dkeys d else dkeys d ++ [a].
Proof.
  unfold dhas. induction d as [|[a' c'] t IH]; cbn [dset dget dkeys map fst app]; [reflexivity|].
  destruct (N.eqb_spec a a') as [->|Hne]; cbn [map fst]; [reflexivity|].
  fold (dkeys (dset a c t)). rewrite IH. fold (dkeys t). now destruct (dget a t).
Qed.

Lemma NoDup_dset a c d : NoDup (dkeys d) -> NoDup (dkeys (dset a c d)).
Proof.
  intros Hnd. rewrite dkeys_dset. destruct (dhas a d) eqn:E; [assumption|].
  assert (Hni : ~ In a (dkeys d)). { intros H. apply dhas_in_keys in H. congruence. }
  clear E. induction (dkeys d) as [|x l IH]; cbn [app].
  - constructor; [intros []|constructor].
  - inversion Hnd as [|? ? Hx Hl]; subst. constructor.
    + rewrite in_app_iff. intros [H|[H|[]]]; [now apply Hx|]. apply Hni. now left.
    + apply IH; [assumption|]. intros H. apply Hni. now right.
Qed.

Lemma dget_dset_same a c d : dget a (dset a c d) = Some c.
Proof.
  induction d as [|[a' c'] t IH]; cbn [dset dget]; [now rewrite N.eqb_refl|].
  destruct (N.eqb_spec a a') as [->|Hne]; cbn [dget]; [now rewrite N.eqb_refl|].
  destruct (N.eqb_spec a a'); [congruence|assumption].
Qed.

Lemma dget_dset_other a b c d : b <> a -> dget b (dset a c d) = dget b d.
Proof.
  intros Hne. induction d as [|[a' c'] t IH]; cbn [dset dget].
  - destruct (N.eqb_spec b a); [congruence|reflexivity].
  - destruct (N.eqb_spec a a') as [->|Hne']; cbn [dget].
    + destruct (N.eqb_spec b a'); [congruence|reflexivity].
    + now rewrite IH.
Qed.

Lemma in_dset a c d b x : NoDup (dkeys d) -> In (b, x) (dset a c d) ->
  (b = a /\ x = c) \/ (b <> a /\ In (b, x) d).
Proof.
  induction d as [|[a' c'] t IH]; cbn [dset dkeys map fst]; intros Hnd.
  - intros [H|[]]. injection H as <- <-. now left.
  - inversion Hnd as [|? ? Hni Hnd']; subst.
    destruct (N.eqb_spec a a') as [->|Hne].
    + intros [H|H]; [injection H as <- <-; now left|].
      right. split; [|now right]. intros ->. apply Hni. eapply in_keys; eassumption.
    + intros [H|H].
      * injection H as <- <-. right. split; [congruence|now left].
      * destruct (IH Hnd' H) as [?|[? ?]]; [now left|right; split; [assumption|now right]].
Qed.

Lemma in_dset_new a c d : In (a, c) (dset a c d).
Proof. apply dget_some_in, dget_dset_same. Qed.

Lemma in_dset_old a c d b x : b <> a -> In (b, x) d -> In (b, x) (dset a c d).
Proof.
  intros Hne. induction d as [|[a' c'] t IH]; cbn [dset]; [intros []|].
  destruct (N.eqb_spec a a') as [->|Hne'].
  - intros [H|H]; [injection H as <- <-; congruence|now right].
  - intros [H|H]; [now left|right; now apply IH].
Qed.

Lemma negkey_pair a b x : negkey a (b, x) = negb (N.eqb b a).
Proof. reflexivity. Qed.

Lemma filter_negkey_dset_same a c d : filter (negkey a) (dset a c d) = filter (negkey a) d.
Proof.
  induction d as [|[a' c'] t IH]; cbn [dset filter].
  - now rewrite negkey_pair, N.eqb_refl.
  - destruct (N.eqb_spec a a') as [->|Hne]; cbn [filter].
    + now rewrite !negkey_pair, N.eqb_refl.
    + now rewrite IH.
Qed.

Lemma filter_negkey_dset_other a b c d : b <> a ->
  filter (negkey a) (dset b c d) = dset b c (filter (negkey a) d).
Proof.
  intros Hne. induction d as [|[a' c'] t IH]; cbn [dset filter].
  - rewrite negkey_pair. destruct (N.eqb_spec b a); [congruence|reflexivity].
  - destruct (N.eqb_spec b a') as [->|Hne']; cbn [filter]; rewrite !negkey_pair.
    + destruct (N.eqb_spec a' a); [congruence|]. cbn [negb dset]. now rewrite N.eqb_refl.
    + destruct (N.eqb_spec a' a); cbn [negb dset]; [assumption|].
      destruct (N.eqb_spec b a'); [congruence|]. now rewrite IH.
Qed.

Lemma filter_filter {A} (f g : A -> bool) l :
  filter f (filter g l) = filter (fun x => g x && f x) l.
Proof.
  induction l as [|x t IH]; cbn [filter]; [reflexivity|].
  destruct (g x); cbn [filter andb]; [destruct (f x)|]; now rewrite IH.
Qed.

Lemma filter_comm {A} (f g : A -> bool) l : filter f (filter g l) = filter g (filter f l).
Proof. rewrite !filter_filter. apply filter_ext. intros x. apply andb_comm. Qed.

Lemma memb_in a ks : memb a ks = true <-> In a ks.
Proof.
  unfold memb. rewrite existsb_exists. split.
  - intros [x [Hin He]]. apply N.eqb_eq in He. now subst.
  - intros H. exists a. split; [assumption|apply N.eqb_refl].
Qed.

Lemma in_keys_filter_negkey a b d : In b (dkeys d) -> b <> a -> In b (dkeys (filter (negkey a) d)).
Proof.
  unfold dkeys. rewrite !in_map_iff. intros [p [Hp Hin]] Hne. exists p. split; [assumption|].
  apply filter_In. split; [assumption|]. unfold negkey. rewrite Hp. now apply negb_true_iff, N.eqb_neq.
Qed.

Lemma del_all_spec ks : forall d, NoDup (dkeys d) -> NoDup ks -> incl ks (dkeys d) ->
  del_all d ks = Some (filter (fun p => negb (memb (fst p) ks)) d).
Proof.
  induction ks as [|a t IH]; intros d Hd Hks Hincl; cbn [del_all].
  - f_equal. symmetry. rewrite <- (filter_ext (fun _ => true)) at 1.
    + clear. induction d as [|p l IHl]; cbn [filter]; [reflexivity|now rewrite IHl].
    + reflexivity.
  - inversion Hks as [|? ? Hni Hks']; subst.
    rewrite ddel_filter by (auto; apply Hincl; now left).
    rewrite IH; [| now apply NoDup_keys_filter | assumption |].
    + f_equal. rewrite filter_filter. apply filter_ext. intros p.
      unfold negkey, memb. cbn [existsb]. now rewrite negb_orb.
    + intros b Hb. apply in_keys_filter_negkey; [apply Hincl; now right|]. intros ->. now apply Hni.
Qed.

(* ------------------------------------------------------------------ 2. channel states *)
Lemma upd_same (E : env) c s : upd E c s c = s.
Proof. unfold upd. now rewrite N.eqb_refl. Qed.
Lemma upd_other (E : env) c s x : x <> c -> upd E c s x = E x.
Proof. unfold upd. intros H. destruct (N.eqb_spec x c); [congruence|reflexivity]. Qed.

Lemma good_iff s : good s = true <-> send_outcome s = None.
Proof. unfold good. destruct (send_outcome s); split; congruence. Qed.
Lemma good_push m s : good (push m s) = good s.
Proof. reflexivity. Qed.
Lemma good_pushes l s : good (pushes l s) = good s.
Proof. reflexivity. Qed.
Lemma good_close1 s : good (close1 s) = false.
Proof. reflexivity. Qed.
Lemma good_break k s : good (break_with k s) = false.
Proof. unfold good, send_outcome, break_with; cbn. now destruct (c_closed s). Qed.
Lemma good_fresh : good fresh_chan = true.
Proof. reflexivity. Qed.
Lemma pushes_nil s : pushes [] s = s.
Proof. destruct s. unfold pushes; cbn. now rewrite app_nil_r. Qed.
Lemma pushes_push m l s : pushes l (push m s) = pushes (m :: l) s.
Proof. unfold pushes, push; cbn. now rewrite <- app_assoc. Qed.
Lemma push_pushes m s : push m s = pushes [m] s.
Proof. reflexivity. Qed.
Lemma iter_close_good n s : (0 < n)%nat -> good (Nat.iter n close1 s) = false.
Proof. destruct n; [lia|]. reflexivity. Qed.
Lemma iter_close_succ n s : Nat.iter (S n) close1 s = Nat.iter n close1 (close1 s).
Proof. induction n; [reflexivity|]. cbn [Nat.iter nat_rect] in *. now rewrite IHn. Qed.
Lemma rcvd_iter_close n s : c_rcvd (Nat.iter n close1 s) = c_rcvd s.
Proof. induction n; cbn; [reflexivity|assumption]. Qed.
Lemma fault_iter_close n s : c_fault (Nat.iter n close1 s) = c_fault s.
Proof. induction n; cbn; [reflexivity|assumption]. Qed.

(* effect of one _broadcast on a channel that is the value of n entries of the table *)
Definition bcast_chan (m : msg) (n : nat) (s : cstate) : cstate :=
  if good s then pushes (repeat m n) s else Nat.iter n close1 s.

Lemma bcast_chan_0 m s : bcast_chan m 0 s = s.
Proof. unfold bcast_chan. destruct (good s); [apply pushes_nil|reflexivity]. Qed.

(* number of entries of the table whose value is channel x *)
Definition count (x : chan) (d : dict) : nat := length (filter (fun p => N.eqb (snd p) x) d).
(* the same counted over a list of keys, looking each key up *)
Definition cnt (d : dict) (x : chan) (ks : list sub_id) : nat :=
  length (filter (fun a => match dget a d with Some c => N.eqb c x | None => false end) ks).
Definition bad_key (d : dict) (E : env) (a : sub_id) : bool :=
  match dget a d with Some c => negb (good (E c)) | None => false end.

Lemma length_filter_keys (d : dict) (f : sub_id -> bool) (g : sub_id * chan -> bool) :
  (forall p, In p d -> f (fst p) = g p) ->
  length (filter f (map fst d)) = length (filter g d).
Proof.
  induction d as [|p t IH]; cbn [map filter]; [reflexivity|]. intros H.
  rewrite (H p (or_introl eq_refl)). destruct (g p); cbn [length]; rewrite IH; auto.
  all: intros q Hq; apply H; now right.
Qed.

Lemma cnt_count d x : NoDup (dkeys d) -> cnt d x (dkeys d) = count x d.
Proof.
  intros Hnd. unfold cnt, count, dkeys. apply length_filter_keys.
  intros [a c] Hin. cbn [fst snd]. now rewrite (dget_in a c d Hnd Hin).
Qed.

Lemma count_zero x d : (forall b y, In (b, y) d -> y <> x) -> count x d = 0%nat.
Proof.
  unfold count. induction d as [|[b y] t IH]; cbn [filter snd]; [reflexivity|]. intros H.
  destruct (N.eqb_spec y x) as [->|Hne].
  - exfalso. eapply H; [now left|reflexivity].
  - apply IH. intros b' y' Hin. eapply H. right; eassumption.
Qed.

Lemma count_one a x d : NoDup (dkeys d) -> In (a, x) d -> (forall b y, In (b, y) d -> y = x -> b = a) ->
  count x d = 1%nat.
Proof.
  unfold count. induction d as [|[b y] t IH]; cbn [filter snd dkeys map fst]; [intros _ []|].
  intros Hnd Hin Huniq. inversion Hnd as [|? ? Hni Hnd']; subst.
  destruct (N.eqb_spec y x) as [->|Hne].
  - assert (b = a) as -> by (eapply Huniq; [now left|reflexivity]).
    cbn [length]. f_equal. apply (count_zero x t). intros b' y' Hin' ->.
    apply Hni. assert (b' = a) as -> by (eapply Huniq; [right; eassumption|reflexivity]).
    eapply in_keys; eassumption.
  - destruct Hin as [He|Hin]; [congruence|]. apply IH; auto.
    intros b' y' Hin'. apply Huniq. now right.
Qed.

(* ------------------------------------------------------------------ 3. closed form of one step *)
Section Tolerant.
Variable cfg : catch_cfg.
Hypothesis Hcfg : forall f, f <> OtherErr -> caught_send cfg f = true /\ caught_bcast cfg f = true.

(* no channel raises an exception that is not an OSError/EOFError *)
Definition tame (w : world) : Prop := forall x, c_fault (chans w x) <> Some OtherErr.

Lemma tame_outcome w x f : tame w -> send_outcome (chans w x) = Some f -> f <> OtherErr.
Proof.
  unfold send_outcome. intros Ht. destruct (c_closed (chans w x)).
  - intros H; injection H as <-. discriminate.
  - intros H ->. now apply (Ht x).
Qed.

Lemma bcast_loop_spec m : forall ks w broken,
  tame w ->
  (forall a, In a ks -> dhas a (subscribers w) = true) ->
  exists w', bcast_loop cfg ks m w broken
             = (w', Ret (broken ++ filter (bad_key (subscribers w) (chans w)) ks))
    /\ subscribers w' = subscribers w
    /\ forall x, chans w' x = bcast_chan m (cnt (subscribers w) x ks) (chans w x).
Proof.
  induction ks as [|a t IH]; intros w broken Ht Hks; cbn [bcast_loop filter].
  - exists w. rewrite app_nil_r. repeat split. intros x. unfold cnt; cbn. now rewrite bcast_chan_0.
  - assert (Ha := Hks a (or_introl eq_refl)). unfold dhas in Ha.
    unfold bad_key at 1. unfold cnt; cbn [filter]. fold (cnt (subscribers w)).
    destruct (dget a (subscribers w)) as [c|] eqn:Eg; [clear Ha|discriminate].
    destruct (send_outcome (chans w c)) as [f|] eqn:Eo.
    + (* send raised *)
      assert (Hf := tame_outcome w c f Ht Eo). destruct (Hcfg f Hf) as [_ ->].
      assert (Hg : good (chans w c) = false) by (unfold good; now rewrite Eo).
      rewrite Hg. cbn [negb].
      set (w1 := _close w a).
      assert (Hs1 : subscribers w1 = subscribers w) by (unfold w1, _close; now rewrite Eg).
      assert (Hc1 : forall x, chans w1 x = if N.eqb x c then close1 (chans w c) else chans w x).
      { intros x. unfold w1, _close. rewrite Eg. reflexivity. }
      destruct (IH w1 (broken ++ [a])) as [w' [Hrun [Hsubs Hch]]].
      * intros x. rewrite Hc1. destruct (N.eqb_spec x c) as [->|_]; [apply (Ht c)|apply Ht].
      * intros b Hb. rewrite Hs1. apply Hks. now right.
      * exists w'. rewrite Hrun, Hs1. repeat split; [|congruence|].
        -- rewrite <- app_assoc. cbn [app]. do 4 f_equal. apply filter_ext. intros b.
           unfold bad_key. destruct (dget b (subscribers w)) as [y|]; [|reflexivity].
           rewrite Hc1. destruct (N.eqb_spec y c) as [->|_]; [now rewrite good_close1, Hg|reflexivity].
        -- intros x. rewrite Hch, Hs1, Hc1. destruct (N.eqb_spec x c) as [->|Hne].
           ++ rewrite N.eqb_refl. cbn [length]. unfold bcast_chan. rewrite good_close1, Hg.
              symmetry. apply iter_close_succ.
           ++ destruct (N.eqb_spec c x); [congruence|reflexivity].
    + (* delivered *)
      assert (Hg : good (chans w c) = true) by (unfold good; now rewrite Eo).
      rewrite Hg. cbn [negb].
      set (w1 := set_chans w (upd (chans w) c (push m (chans w c)))).
      assert (Hc1 : forall x, chans w1 x = if N.eqb x c then push m (chans w c) else chans w x) by reflexivity.
      destruct (IH w1 broken) as [w' [Hrun [Hsubs Hch]]].
      * intros x. rewrite Hc1. destruct (N.eqb_spec x c) as [->|_]; [apply (Ht c)|apply Ht].
      * intros b Hb. apply Hks. now right.
      * exists w'. rewrite Hrun. change (subscribers w1) with (subscribers w). repeat split; [|assumption|].
        -- do 3 f_equal. apply filter_ext. intros b.
           unfold bad_key. destruct (dget b (subscribers w)) as [y|]; [|reflexivity].
           rewrite Hc1. destruct (N.eqb_spec y c) as [->|_]; [now rewrite good_push|reflexivity].
        -- intros x. rewrite Hch. change (subscribers w1) with (subscribers w). rewrite Hc1.
           destruct (N.eqb_spec x c) as [->|Hne].
           ++ rewrite N.eqb_refl. cbn [length]. unfold bcast_chan. rewrite good_push, Hg.
              cbn [repeat]. apply pushes_push.
           ++ destruct (N.eqb_spec c x); [congruence|reflexivity].
Qed.

Lemma broadcast_spec m w : wf w -> tame w ->
  exists w', _broadcast cfg w m = (w', Ret tt)
    /\ subscribers w' = filter (fun p => good (chans w (snd p))) (subscribers w)
    /\ forall x, chans w' x = bcast_chan m (count x (subscribers w)) (chans w x).
Proof.
  intros Hwf Ht. unfold _broadcast.
  destruct (bcast_loop_spec m (dkeys (subscribers w)) w [] Ht) as [w1 [Hrun [Hsubs Hch]]].
  { intros a Ha. now apply dhas_in_keys. }
  rewrite Hrun, Hsubs. cbn [app].
  rewrite del_all_spec; [|exact Hwf|now apply NoDup_filter|intros a Ha; apply filter_In in Ha; tauto].
  eexists. split; [reflexivity|]. cbn [subscribers chans]. split.
  - apply filter_ext_in. intros [a c] Hin. cbn [fst snd].
    assert (Hk : In a (dkeys (subscribers w))) by (eapply in_keys; eassumption).
    destruct (memb a (filter (bad_key (subscribers w) (chans w)) (dkeys (subscribers w)))) eqn:Em.
    + apply memb_in, filter_In in Em as [_ Hb]. unfold bad_key in Hb.
      rewrite (dget_in a c _ Hwf Hin) in Hb. cbn [negb]. now apply negb_true_iff in Hb.
    + cbn [negb]. destruct (good (chans w c)) eqn:Eg; [reflexivity|]. exfalso.
      assert (Hm : memb a (filter (bad_key (subscribers w) (chans w)) (dkeys (subscribers w))) = true).
      { apply memb_in, filter_In. split; [assumption|]. unfold bad_key.
        now rewrite (dget_in a c _ Hwf Hin), Eg. }
      congruence.
  - intros x. rewrite Hch. now rewrite cnt_count.
Qed.

(* the closed form *)
Definition spec_subs (o : op) (w : world) : dict :=
  match o with
  | Handle (ESubscribe a c) =>
      if good (chans w c) then dset a c (subscribers w) else filter (negkey a) (subscribers w)
  | Handle (EUnsubscribe a) => filter (negkey a) (subscribers w)
  | Handle (EPublish _) => filter (fun p => good (chans w (snd p))) (subscribers w)
  | Break _ _ => subscribers w
  end.

Definition spec_chan (o : op) (w : world) (x : chan) : cstate :=
  match o with
  | Handle (ESubscribe a c) =>
      if N.eqb x c then (if good (chans w c) then push MSubscribed (chans w c) else close1 (chans w c))
      else chans w x
  | Handle (EUnsubscribe a) =>
      match dget a (subscribers w) with
      | Some c => if N.eqb x c
                  then close1 (if good (chans w c) then push MUnsubscribed (chans w c) else chans w c)
                  else chans w x
      | None => chans w x
      end
  | Handle (EPublish e) => bcast_chan (MEv e) (count x (subscribers w)) (chans w x)
  | Break c k => if N.eqb x c then break_with k (chans w c) else chans w x
  end.

Lemma close_and_delete_spec w a c : wf w -> dget a (subscribers w) = Some c ->
  exists w', _close_and_delete w a = (w', Ret tt)
    /\ subscribers w' = filter (negkey a) (subscribers w)
    /\ forall x, chans w' x = if N.eqb x c then close1 (chans w c) else chans w x.
Proof.
  intros Hwf Hg. unfold _close_and_delete, _close. rewrite Hg. cbn [subscribers set_chans].
  rewrite ddel_filter; [|exact Hwf|eapply in_keys, dget_some_in; eassumption].
  eexists. split; [reflexivity|]. split; reflexivity.
Qed.

Lemma step_spec w o : wf w -> tame w -> no_other_op o = true ->
  exists w', step cfg w o = (w', Ret tt)
    /\ subscribers w' = spec_subs o w
    /\ forall x, chans w' x = spec_chan o w x.
Proof.
  intros Hwf Ht Hno. destruct o as [[a c|a|e]|c k]; cbn [step handle_event spec_subs spec_chan].
  - (* subscribe *)
    set (w1 := mk_world (dset a c (subscribers w)) (chans w)).
    assert (Hwf1 : wf w1) by (apply NoDup_dset, Hwf).
    unfold _send. cbn [subscribers chans w1]. fold w1. rewrite dget_dset_same.
    destruct (send_outcome (chans w c)) as [f|] eqn:Eo.
    + assert (Hf := tame_outcome w c f Ht Eo). destruct (Hcfg f Hf) as [-> _].
      assert (Hg : good (chans w c) = false) by (unfold good; now rewrite Eo). rewrite Hg.
      destruct (close_and_delete_spec w1 a c Hwf1) as [w' [Hrun [Hs Hc]]]; [apply dget_dset_same|].
      exists w'. split; [exact Hrun|]. split; [|exact Hc].
      rewrite Hs. unfold w1; cbn [subscribers]. apply filter_negkey_dset_same.
    + assert (Hg : good (chans w c) = true) by (unfold good; now rewrite Eo). rewrite Hg.
      eexists. split; [reflexivity|]. split; reflexivity.
  - (* unsubscribe *)
    unfold dhas, _send. destruct (dget a (subscribers w)) as [c|] eqn:Eg.
    + destruct (send_outcome (chans w c)) as [f|] eqn:Eo.
      * assert (Hf := tame_outcome w c f Ht Eo). destruct (Hcfg f Hf) as [-> _].
        assert (Hg : good (chans w c) = false) by (unfold good; now rewrite Eo). rewrite Hg.
        destruct (close_and_delete_spec w a c Hwf Eg) as [w' [Hrun [Hs Hc]]].
        exists w'. auto.
      * assert (Hg : good (chans w c) = true) by (unfold good; now rewrite Eo). rewrite Hg.
        set (w1 := set_chans w (upd (chans w) c (push MUnsubscribed (chans w c)))).
        destruct (close_and_delete_spec w1 a c Hwf Eg) as [w' [Hrun [Hs Hc]]].
        exists w'. split; [exact Hrun|]. split; [exact Hs|].
        intros x. rewrite Hc. unfold w1; cbn [chans set_chans]. rewrite upd_same.
        destruct (N.eqb_spec x c) as [->|Hne]; [reflexivity|now apply upd_other].
    + exists w. split; [reflexivity|]. split; [|reflexivity].
      symmetry. apply filter_negkey_notin. now apply dget_none_notin.
  - (* publish *)
    apply broadcast_spec; assumption.
  - eexists. split; [reflexivity|]. split; reflexivity.
Qed.

(* wf and tame are invariants *)
Lemma spec_wf w o : wf w -> NoDup (dkeys (spec_subs o w)).
Proof.
  intros Hwf. destruct o as [[a c|a|e]|c k]; cbn [spec_subs]; try exact Hwf.
  - destruct (good (chans w c)); [now apply NoDup_dset|now apply NoDup_keys_filter].
  - now apply NoDup_keys_filter.
  - now apply NoDup_keys_filter.
Qed.

Lemma bcast_chan_fault m n s : c_fault (bcast_chan m n s) = c_fault s.
Proof. unfold bcast_chan. destruct (good s); [reflexivity|apply fault_iter_close]. Qed.

Lemma spec_tame w o : tame w -> no_other_op o = true -> forall x, c_fault (spec_chan o w x) <> Some OtherErr.
Proof.
  intros Ht Hno x. destruct o as [[a c|a|e]|c k]; cbn [spec_chan].
  - destruct (N.eqb x c); [|apply Ht]. destruct (good (chans w c)); apply (Ht c).
  - destruct (dget a (subscribers w)) as [c|]; [|apply Ht].
    destruct (N.eqb x c); [|apply Ht]. destruct (good (chans w c)); apply (Ht c).
  - rewrite bcast_chan_fault. apply Ht.
  - destruct (N.eqb x c); [|apply Ht]. cbn. destruct k; cbn in Hno; congruence.
Qed.

Lemma step_inv w o : wf w -> tame w -> no_other_op o = true ->
  wf (fst (step cfg w o)) /\ tame (fst (step cfg w o)) /\ snd (step cfg w o) = Ret tt.
Proof.
  intros Hwf Ht Hno. destruct (step_spec w o Hwf Ht Hno) as [w' [Hrun [Hs Hc]]].
  rewrite Hrun. cbn [fst snd]. split; [|split; [|reflexivity]].
  - unfold wf. rewrite Hs. now apply spec_wf.
  - intros x. rewrite Hc. now apply spec_tame.
Qed.

Lemma steps_app w h1 h2 : steps cfg w (h1 ++ h2) = steps cfg (steps cfg w h1) h2.
Proof. unfold steps. apply fold_left_app. Qed.

Lemma steps_cons w o h : steps cfg w (o :: h) = steps cfg (fst (step cfg w o)) h.
Proof. reflexivity. Qed.

Lemma steps_inv h : forall w, wf w -> tame w -> no_other h = true ->
  wf (steps cfg w h) /\ tame (steps cfg w h).
Proof.
  induction h as [|o t IH]; intros w Hwf Ht Hno; [now split|].
  cbn [no_other forallb] in Hno. apply andb_true_iff in Hno as [Ho Hno].
  rewrite steps_cons. destruct (step_inv w o Hwf Ht Ho) as [Hwf' [Ht' _]]. now apply IH.
Qed.


(* ------------------------------------------------------------------ 4. consequences of the closed form *)

Lemma dget_filter_keep (P : sub_id * chan -> bool) a c d :
  NoDup (dkeys d) -> In (a, c) d -> P (a, c) = true -> dget a (filter P d) = Some c.
Proof.
  intros Hnd Hin HP. apply dget_in; [now apply NoDup_keys_filter|]. apply filter_In. now split.
Qed.

Lemma dget_filter_negkey a b d : a <> b -> dget a (filter (negkey b) d) = dget a d.
Proof.
  intros Hne. induction d as [|[a' c'] t IH]; cbn [filter dget]; [reflexivity|].
  rewrite negkey_pair. destruct (N.eqb_spec a' b) as [->|Hb]; cbn [negb dget].
  - destruct (N.eqb_spec a b); [congruence|assumption].
  - now rewrite IH.
Qed.

Lemma filter_all {A} (f : A -> bool) l : (forall x, In x l -> f x = true) -> filter f l = l.
Proof.
  induction l as [|x t IH]; cbn [filter]; [reflexivity|]. intros H.
  rewrite (H x (or_introl eq_refl)). f_equal. apply IH. intros y Hy. apply H. now right.
Qed.

Lemma filter_idem {A} (f : A -> bool) l : filter f (filter f l) = filter f l.
Proof. apply filter_all. intros x Hx. now apply filter_In in Hx. Qed.

Lemma good_iter_close_bad n s : good s = false -> good (Nat.iter n close1 s) = false.
Proof. intros H. destruct n; [assumption|reflexivity]. Qed.

(* (A) a channel whose peer is gone, or that was closed, never receives anything again *)
Lemma spec_frozen w o x : good (chans w x) = false ->
  good (spec_chan o w x) = false /\ c_rcvd (spec_chan o w x) = c_rcvd (chans w x).
Proof.
  intros Hb. destruct o as [[a c|a|e]|c k]; cbn [spec_chan].
  - destruct (N.eqb_spec x c) as [->|_]; [|now split]. rewrite Hb. now split.
  - destruct (dget a (subscribers w)) as [c|]; [|now split].
    destruct (N.eqb_spec x c) as [->|_]; [|now split]. rewrite Hb. now split.
  - unfold bcast_chan. rewrite Hb. split; [now apply good_iter_close_bad|apply rcvd_iter_close].
  - destruct (N.eqb_spec x c) as [->|_]; [|now split]. split; [apply good_break|reflexivity].
Qed.

Lemma steps_frozen x h : forall w, wf w -> tame w -> no_other h = true -> good (chans w x) = false ->
  c_rcvd (chans (steps cfg w h) x) = c_rcvd (chans w x) /\ good (chans (steps cfg w h) x) = false.
Proof.
  induction h as [|o t IH]; intros w Hwf Ht Hno Hb; [now split|].
  cbn [no_other forallb] in Hno. apply andb_true_iff in Hno as [Ho Hno]. rewrite steps_cons.
  destruct (step_inv w o Hwf Ht Ho) as [Hwf' [Ht' _]].
  destruct (step_spec w o Hwf Ht Ho) as [w' [Hrun [Hs Hc]]]. rewrite Hrun in *. cbn [fst] in *.
  destruct (spec_frozen w o x Hb) as [Hb' Hr]. rewrite <- Hc in Hb', Hr.
  destruct (IH w' Hwf' Ht' Hno Hb') as [IH1 IH2]. split; [congruence|assumption].
Qed.

(* (B) a channel no table entry points to, and that the history does not mention, is not touched *)
Definition unbound (c : chan) (w : world) : Prop := forall b y, In (b, y) (subscribers w) -> y <> c.

Lemma spec_unbound w o c : wf w -> unbound c w -> untouched_op c o = true ->
  spec_chan o w c = chans w c /\ (forall b y, In (b, y) (spec_subs o w) -> y <> c).
Proof.
  intros Hwf Hu Ho. destruct o as [[a c'|a|e]|c' k]; cbn [spec_chan spec_subs untouched_op] in *.
  - apply negb_true_iff, N.eqb_neq in Ho. destruct (N.eqb_spec c c'); [congruence|]. split; [reflexivity|].
    intros b y Hin. destruct (good (chans w c')).
    + apply in_dset in Hin as [[_ ->]|[_ Hin]]; [congruence|now apply (Hu b)|exact Hwf].
    + apply filter_In in Hin as [Hin _]. now apply (Hu b).
  - split.
    + destruct (dget a (subscribers w)) as [c'|] eqn:Eg; [|reflexivity].
      apply dget_some_in, Hu in Eg. destruct (N.eqb_spec c c'); [congruence|reflexivity].
    + intros b y Hin. apply filter_In in Hin as [Hin _]. now apply (Hu b).
  - split.
    + rewrite count_zero; [apply bcast_chan_0|exact Hu].
    + intros b y Hin. apply filter_In in Hin as [Hin _]. now apply (Hu b).
  - apply negb_true_iff, N.eqb_neq in Ho. destruct (N.eqb_spec c c'); [congruence|]. now split.
Qed.

Lemma steps_unbound c h : forall w, wf w -> tame w -> no_other h = true -> untouched c h = true ->
  unbound c w -> chans (steps cfg w h) c = chans w c /\ unbound c (steps cfg w h).
Proof.
  induction h as [|o t IH]; intros w Hwf Ht Hno Hun Hu; [now split|].
  cbn [no_other untouched forallb] in Hno, Hun.
  apply andb_true_iff in Hno as [Ho Hno]. apply andb_true_iff in Hun as [Huo Hun]. rewrite steps_cons.
  destruct (step_inv w o Hwf Ht Ho) as [Hwf' [Ht' _]].
  destruct (step_spec w o Hwf Ht Ho) as [w' [Hrun [Hs Hc]]]. rewrite Hrun in *. cbn [fst] in *.
  destruct (spec_unbound w o c Hwf Hu Huo) as [Hsame Hu'].
  assert (Hu2 : unbound c w') by (unfold unbound; now rewrite Hs).
  destruct (IH w' Hwf' Ht' Hno Hun Hu2) as [IH1 IH2]. split; [|assumption].
  now rewrite IH1, Hc.
Qed.

(* (C) the session invariant: a is subscribed with c, nobody else is, and c is healthy *)
Definition session (a : sub_id) (c : chan) (w : world) : Prop :=
  dget a (subscribers w) = Some c
  /\ (forall b y, In (b, y) (subscribers w) -> y = c -> b = a)
  /\ good (chans w c) = true.

Lemma spec_session a c w o : wf w -> session a c w -> quiet_op a c o = true ->
  dget a (spec_subs o w) = Some c
  /\ (forall b y, In (b, y) (spec_subs o w) -> y = c -> b = a)
  /\ good (spec_chan o w c) = true
  /\ c_rcvd (spec_chan o w c) = c_rcvd (chans w c) ++ owed_op a c o.
Proof.
  intros Hwf [Hg [Hu Hgood]] Hq.
  assert (Hin : In (a, c) (subscribers w)) by now apply dget_some_in.
  destruct o as [[a' c'|a'|e]|c' k]; cbn [spec_chan spec_subs quiet_op owed_op] in *.
  - apply orb_true_iff in Hq as [Hq|Hq]; apply andb_true_iff in Hq as [Hq1 Hq2].
    + apply N.eqb_eq in Hq1, Hq2. subst a' c'. rewrite !N.eqb_refl, Hgood. cbn [andb].
      repeat split; [apply dget_dset_same| |assumption].
      intros b y Hb ->. apply in_dset in Hb as [[-> _]|[_ Hb]]; [reflexivity| |exact Hwf]. now apply (Hu b c).
    + apply negb_true_iff in Hq1, Hq2. rewrite Hq1. cbn [andb]. rewrite app_nil_r.
      apply N.eqb_neq in Hq1, Hq2. destruct (N.eqb_spec c c') as [->|_]; [congruence|].
      split; [|split; [|now split]].
      * destruct (good (chans w c')); [rewrite dget_dset_other; auto|].
        apply dget_filter_keep; auto. rewrite negkey_pair. apply negb_true_iff, N.eqb_neq. congruence.
      * intros b y Hb ->. destruct (good (chans w c')).
        -- apply in_dset in Hb as [[_ Hb]|[_ Hb]]; [congruence|now apply (Hu b c)|exact Hwf].
        -- apply filter_In in Hb as [Hb _]. now apply (Hu b c).
  - apply negb_true_iff, N.eqb_neq in Hq. rewrite app_nil_r.
    split; [|split; [|split]].
    + apply dget_filter_keep; auto. rewrite negkey_pair. apply negb_true_iff, N.eqb_neq. congruence.
    + intros b y Hb ->. apply filter_In in Hb as [Hb _]. now apply (Hu b c).
    + destruct (dget a' (subscribers w)) as [c'|] eqn:Eg; [|assumption].
      destruct (N.eqb_spec c c') as [<-|_]; [|assumption].
      exfalso. apply Hq. apply dget_some_in in Eg. now apply (Hu a' c).
    + destruct (dget a' (subscribers w)) as [c'|] eqn:Eg; [|reflexivity].
      destruct (N.eqb_spec c c') as [<-|_]; [|reflexivity].
      exfalso. apply Hq. apply dget_some_in in Eg. now apply (Hu a' c).
  - rewrite (count_one a c _ Hwf Hin Hu). unfold bcast_chan. rewrite Hgood. cbn [repeat].
    split; [|split; [|now split]].
    + apply dget_filter_keep; auto.
    + intros b y Hb ->. apply filter_In in Hb as [Hb _]. now apply (Hu b c).
  - apply negb_true_iff, N.eqb_neq in Hq. destruct (N.eqb_spec c c'); [congruence|].
    rewrite app_nil_r. now repeat split.
Qed.

Lemma steps_session a c h : forall w, wf w -> tame w -> no_other h = true -> quiet a c h = true ->
  session a c w ->
  session a c (steps cfg w h) /\ c_rcvd (chans (steps cfg w h) c) = c_rcvd (chans w c) ++ owed a c h.
Proof.
  induction h as [|o t IH]; intros w Hwf Ht Hno Hq Hs; [cbn; now rewrite app_nil_r|].
  cbn [no_other quiet forallb] in Hno, Hq.
  apply andb_true_iff in Hno as [Ho Hno]. apply andb_true_iff in Hq as [Hqo Hq]. rewrite steps_cons.
  destruct (step_inv w o Hwf Ht Ho) as [Hwf' [Ht' _]].
  destruct (step_spec w o Hwf Ht Ho) as [w' [Hrun [Hsub Hc]]]. rewrite Hrun in *. cbn [fst] in *.
  destruct (spec_session a c w o Hwf Hs Hqo) as [H1 [H2 [H3 H4]]].
  assert (Hs' : session a c w') by (unfold session; rewrite Hsub, Hc; auto).
  destruct (IH w' Hwf' Ht' Hno Hq Hs') as [IH1 IH2]. split; [assumption|].
  rewrite IH2, Hc, H4. unfold owed. cbn [flat_map]. now rewrite app_assoc.
Qed.

(* subscribing with a channel nobody points to starts a session *)
Lemma subscribe_starts_session a c w : wf w -> tame w -> unbound c w -> good (chans w c) = true ->
  let w' := fst (step cfg w (Subscribe a c)) in
  session a c w' /\ c_rcvd (chans w' c) = c_rcvd (chans w c) ++ [MSubscribed].
Proof.
  intros Hwf Ht Hu Hg. cbn zeta.
  destruct (step_spec w (Subscribe a c) Hwf Ht eq_refl) as [w' [Hrun [Hs Hc]]]. rewrite Hrun. cbn [fst].
  unfold Subscribe in *. cbn [spec_subs spec_chan] in *. rewrite Hg in *.
  unfold session. rewrite Hs, Hc, N.eqb_refl. repeat split.
  - apply dget_dset_same.
  - intros b y Hb ->. apply in_dset in Hb as [[-> _]|[_ Hb]]; [reflexivity| |exact Hwf].
    exfalso. now apply (Hu b c).
  - now rewrite good_push.
Qed.

Lemma init_wf : wf init. Proof. constructor. Qed.
Lemma init_tame : tame init. Proof. intros x. discriminate. Qed.
Lemma init_unbound c : unbound c init. Proof. intros b y []. Qed.

Lemma no_other_app h1 h2 : no_other (h1 ++ h2) = no_other h1 && no_other h2.
Proof. apply forallb_app. Qed.

(* state reached after h1 ++ [Subscribe a c] ++ h2 *)
Lemma session_established a c h1 h2 :
  no_other (h1 ++ Subscribe a c :: h2) = true -> untouched c h1 = true -> quiet a c h2 = true ->
  let w := steps cfg init (h1 ++ Subscribe a c :: h2) in
  wf w /\ tame w /\ session a c w /\ c_rcvd (chans w c) = MSubscribed :: owed a c h2.
Proof.
  intros Hno Hun Hq. cbn zeta.
  rewrite no_other_app in Hno. apply andb_true_iff in Hno as [Hno1 Hno2].
  cbn [no_other forallb] in Hno2. apply andb_true_iff in Hno2 as [_ Hno2]. fold (no_other h2) in Hno2.
  rewrite steps_app, steps_cons.
  destruct (steps_inv h1 init init_wf init_tame Hno1) as [Hwf1 Ht1].
  destruct (steps_unbound c h1 init init_wf init_tame Hno1 Hun (init_unbound c)) as [Hc1 Hu1].
  set (w1 := steps cfg init h1) in *.
  assert (Hg1 : good (chans w1 c) = true) by (rewrite Hc1; reflexivity).
  destruct (subscribe_starts_session a c w1 Hwf1 Ht1 Hu1 Hg1) as [Hs2 Hr2].
  destruct (step_inv w1 (Subscribe a c) Hwf1 Ht1 eq_refl) as [Hwf2 [Ht2 _]].
  set (w2 := fst (step cfg w1 (Subscribe a c))) in *.
  destruct (steps_session a c h2 w2 Hwf2 Ht2 Hno2 Hq Hs2) as [Hs3 Hr3].
  destruct (steps_inv h2 w2 Hwf2 Ht2 Hno2) as [Hwf3 Ht3].
  repeat split; try assumption; try apply Hs3.
  rewrite Hr3, Hr2, Hc1. reflexivity.
Qed.

(* exactly once, in order, while subscribed *)
Lemma exactly_once_in_order a c h1 h2 :
  no_other (h1 ++ Subscribe a c :: h2) = true -> untouched c h1 = true -> quiet a c h2 = true ->
  let w := steps cfg init (h1 ++ Subscribe a c :: h2) in
  rcvd w c = MSubscribed :: owed a c h2 /\ dget a (subscribers w) = Some c.
Proof.
  intros Hno Hun Hq. destruct (session_established a c h1 h2 Hno Hun Hq) as [_ [_ [Hs Hr]]].
  split; [exact Hr|apply Hs].
Qed.

(* ... the unsubscription acknowledgement is the last thing it ever receives, whatever follows *)
Lemma unsubscribed_then_nothing a c h1 h2 h3 :
  no_other (h1 ++ Subscribe a c :: h2 ++ Unsubscribe a :: h3) = true ->
  untouched c h1 = true -> quiet a c h2 = true ->
  rcvd (steps cfg init (h1 ++ Subscribe a c :: h2 ++ Unsubscribe a :: h3)) c
  = MSubscribed :: owed a c h2 ++ [MUnsubscribed].
Proof.
  intros Hno Hun Hq.
  replace (h1 ++ Subscribe a c :: h2 ++ Unsubscribe a :: h3)
    with ((h1 ++ Subscribe a c :: h2) ++ Unsubscribe a :: h3) in * by (rewrite <- app_assoc; reflexivity).
  rewrite no_other_app in Hno. apply andb_true_iff in Hno as [Hno1 Hno2].
  cbn [no_other forallb] in Hno2. apply andb_true_iff in Hno2 as [_ Hno3]. fold (no_other h3) in Hno3.
  destruct (session_established a c h1 h2 Hno1 Hun Hq) as [Hwf [Ht [[Hg [Hu Hgood]] Hr]]].
  rewrite steps_app, steps_cons. set (w := steps cfg init (h1 ++ Subscribe a c :: h2)) in *.
  destruct (step_inv w (Unsubscribe a) Hwf Ht eq_refl) as [Hwf' [Ht' _]].
  destruct (step_spec w (Unsubscribe a) Hwf Ht eq_refl) as [w' [Hrun [Hs Hc]]]. rewrite Hrun in *. cbn [fst] in *.
  unfold Unsubscribe in *. cbn [spec_subs spec_chan] in *.
  assert (Hc' : chans w' c = close1 (push MUnsubscribed (chans w c))).
  { rewrite Hc, Hg, N.eqb_refl, Hgood. reflexivity. }
  assert (Hb : good (chans w' c) = false) by (rewrite Hc'; reflexivity).
  destruct (steps_frozen c h3 w' Hwf' Ht' Hno3 Hb) as [Hfr _].
  unfold rcvd. rewrite Hfr, Hc'. cbn [c_rcvd close1 push]. rewrite Hr. reflexivity.
Qed.

(* a channel that breaks keeps what it had received and gets nothing more, whatever follows *)
Lemma broken_then_nothing a c k h1 h2 h3 :
  no_other (h1 ++ Subscribe a c :: h2 ++ Break c k :: h3) = true ->
  untouched c h1 = true -> quiet a c h2 = true ->
  rcvd (steps cfg init (h1 ++ Subscribe a c :: h2 ++ Break c k :: h3)) c = MSubscribed :: owed a c h2.
Proof.
  intros Hno Hun Hq.
  replace (h1 ++ Subscribe a c :: h2 ++ Break c k :: h3)
    with ((h1 ++ Subscribe a c :: h2) ++ Break c k :: h3) in * by (rewrite <- app_assoc; reflexivity).
  rewrite no_other_app in Hno. apply andb_true_iff in Hno as [Hno1 Hno2].
  cbn [no_other forallb] in Hno2. apply andb_true_iff in Hno2 as [Hk Hno3]. fold (no_other h3) in Hno3.
  destruct (session_established a c h1 h2 Hno1 Hun Hq) as [Hwf [Ht [_ Hr]]].
  rewrite steps_app, steps_cons. set (w := steps cfg init (h1 ++ Subscribe a c :: h2)) in *.
  destruct (step_inv w (Break c k) Hwf Ht Hk) as [Hwf' [Ht' _]].
  cbn [step fst] in *. set (w' := set_chans w (upd (chans w) c (break_with k (chans w c)))) in *.
  assert (Hc' : chans w' c = break_with k (chans w c)) by apply upd_same.
  assert (Hb : good (chans w' c) = false) by (rewrite Hc'; apply good_break).
  destruct (steps_frozen c h3 w' Hwf' Ht' Hno3 Hb) as [Hfr _].
  unfold rcvd. rewrite Hfr, Hc'. exact Hr.
Qed.

(* (E) after every publish no subscriber with a dead channel is left in the table *)
Lemma broken_dropped h e : no_other h = true ->
  let w := steps cfg init (h ++ [Publish e]) in
  forall b x, In (b, x) (subscribers w) -> good (chans w x) = true.
Proof.
  intros Hno. cbn zeta. rewrite steps_app.
  destruct (steps_inv h init init_wf init_tame Hno) as [Hwf Ht].
  set (w := steps cfg init h) in *. unfold steps; cbn [fold_left].
  destruct (step_spec w (Publish e) Hwf Ht eq_refl) as [w' [Hrun [Hs Hc]]]. rewrite Hrun. cbn [fst].
  unfold Publish in *. cbn [spec_subs spec_chan] in *.
  intros b x Hin. rewrite Hs in Hin. apply filter_In in Hin as [_ Hg]. cbn [snd] in Hg.
  rewrite Hc. unfold bcast_chan. rewrite Hg. now rewrite good_pushes.
Qed.

(* (G) the dispatcher never stops *)
Lemma outcomes_ret h : forall w, wf w -> tame w -> no_other h = true ->
  Forall (fun r => r = Ret tt) (outcomes cfg w h).
Proof.
  induction h as [|o t IH]; intros w Hwf Ht Hno; cbn [outcomes]; [constructor|].
  cbn [no_other forallb] in Hno. apply andb_true_iff in Hno as [Ho Hno].
  destruct (step_inv w o Hwf Ht Ho) as [Hwf' [Ht' Hr]]. constructor; [assumption|now apply IH].
Qed.

Lemma run_loop_total h : forall w n, wf w -> tame w -> no_other h = true ->
  run_loop cfg w h n = (steps cfg w h, Ret tt, n + N.of_nat (length h)).
Proof.
  induction h as [|o t IH]; intros w n Hwf Ht Hno; cbn [run_loop length].
  - now rewrite N.add_0_r.
  - cbn [no_other forallb] in Hno. apply andb_true_iff in Hno as [Ho Hno].
    destruct (step_inv w o Hwf Ht Ho) as [Hwf' [Ht' Hr]].
    rewrite steps_cons. destruct (step cfg w o) as [w1 r]. cbn [fst snd] in *. subst r.
    rewrite IH by assumption. f_equal. lia.
Qed.

Lemma run_total h : no_other h = true ->
  exists w, run cfg init h = (w, Ret tt, N.of_nat (length h))
    /\ forall x, chans w x = bcast_chan MShutdown (count x (subscribers (steps cfg init h))) (chans (steps cfg init h) x).
Proof.
  intros Hno. unfold run. rewrite run_loop_total by (auto using init_wf, init_tame).
  destruct (steps_inv h init init_wf init_tame Hno) as [Hwf Ht].
  destruct (broadcast_spec MShutdown _ Hwf Ht) as [w' [Hrun [Hs Hc]]]. rewrite Hrun.
  exists w'. split; [reflexivity|exact Hc].
Qed.

(* (F) isolation: a run and the run from which subscriber (a, c) has been erased *)
Definition sim (a : sub_id) (c : chan) (w1 w2 : world) : Prop :=
  subscribers w2 = filter (negkey a) (subscribers w1)
  /\ (forall b y, In (b, y) (subscribers w1) -> (b = a <-> y = c))
  /\ (forall x, x <> c -> chans w1 x = chans w2 x).

Lemma count_filter_negkey a c x d : (forall b y, In (b, y) d -> (b = a <-> y = c)) -> x <> c ->
  count x (filter (negkey a) d) = count x d.
Proof.
  intros Hown Hx. unfold count. rewrite filter_comm. f_equal. apply filter_all.
  intros [b y] Hin. apply filter_In in Hin as [Hin Hy]. cbn [snd] in Hy. apply N.eqb_eq in Hy. subst y.
  rewrite negkey_pair. apply negb_true_iff, N.eqb_neq. intros ->. apply Hx. now apply (Hown a x Hin).
Qed.

Lemma spec_sim a c w1 w2 o : wf w1 -> sim a c w1 w2 -> owns_op a c o = true ->
  let s2 := if mentions a c o then subscribers w2 else spec_subs o w2 in
  s2 = filter (negkey a) (spec_subs o w1)
  /\ (forall b y, In (b, y) (spec_subs o w1) -> (b = a <-> y = c))
  /\ (forall x, x <> c -> spec_chan o w1 x = if mentions a c o then chans w2 x else spec_chan o w2 x).
Proof.
  intros Hwf [Hs [Hown Hch]] Ho. cbn zeta.
  destruct o as [[a' c'|a'|e]|c' k]; cbn [mentions owns_op spec_subs spec_chan] in *.
  - apply eqb_prop in Ho. destruct (N.eqb_spec a' a) as [->|Ha]; cbn [orb].
    + symmetry in Ho. apply N.eqb_eq in Ho. subst c'. split; [|split].
      * rewrite Hs. destruct (good (chans w1 c)); [now rewrite filter_negkey_dset_same|now rewrite filter_idem].
      * intros b y Hin. destruct (good (chans w1 c)).
        -- apply in_dset in Hin as [[-> ->]|[_ Hin]]; [tauto|now apply Hown|exact Hwf].
        -- apply filter_In in Hin as [Hin _]. now apply Hown.
      * intros x Hx. destruct (N.eqb_spec x c); [congruence|now apply Hch].
    + symmetry in Ho. apply N.eqb_neq in Ho. destruct (N.eqb_spec c' c); [congruence|].
      rewrite <- (Hch c') by assumption. split; [|split].
      * rewrite Hs. destruct (good (chans w1 c')); [now rewrite filter_negkey_dset_other|apply filter_comm].
      * intros b y Hin. destruct (good (chans w1 c')).
        -- apply in_dset in Hin as [[-> ->]|[_ Hin]]; [tauto|now apply Hown|exact Hwf].
        -- apply filter_In in Hin as [Hin _]. now apply Hown.
      * intros x Hx. destruct (N.eqb x c'); [reflexivity|now apply Hch].
  - destruct (N.eqb_spec a' a) as [->|Ha].
    + split; [|split].
      * now rewrite Hs, filter_idem.
      * intros b y Hin. apply filter_In in Hin as [Hin _]. now apply Hown.
      * intros x Hx. destruct (dget a (subscribers w1)) as [c''|] eqn:Eg; [|now apply Hch].
        apply dget_some_in in Eg. assert (c'' = c) as -> by now apply (Hown a c'' Eg).
        destruct (N.eqb_spec x c); [congruence|now apply Hch].
    + split; [|split].
      * rewrite Hs. apply filter_comm.
      * intros b y Hin. apply filter_In in Hin as [Hin _]. now apply Hown.
      * intros x Hx. rewrite Hs, dget_filter_negkey by assumption.
        destruct (dget a' (subscribers w1)) as [c''|] eqn:Eg; [|now apply Hch].
        apply dget_some_in in Eg. assert (c'' <> c) by (intros ->; apply Ha; now apply (Hown a' c Eg)).
        rewrite <- (Hch c'') by assumption. destruct (N.eqb x c''); [reflexivity|now apply Hch].
  - split; [|split].
    + rewrite Hs, (filter_comm (negkey a)). apply filter_ext_in. intros [b y] Hin. cbn [snd].
      apply filter_In in Hin as [Hin Hb]. rewrite negkey_pair in Hb. apply negb_true_iff, N.eqb_neq in Hb.
      rewrite Hch; [reflexivity|]. intros ->. apply Hb. now apply (Hown b c Hin).
    + intros b y Hin. apply filter_In in Hin as [Hin _]. now apply Hown.
    + intros x Hx. rewrite Hs, (count_filter_negkey a c) by assumption. now rewrite Hch.
  - destruct (N.eqb_spec c' c) as [->|Hc].
    + split; [exact Hs|split; [exact Hown|]]. intros x Hx. destruct (N.eqb_spec x c); [congruence|now apply Hch].
    + split; [exact Hs|split; [exact Hown|]]. intros x Hx. rewrite <- (Hch c') by assumption.
      destruct (N.eqb x c'); [reflexivity|now apply Hch].
Qed.

Lemma no_other_erase a c h : no_other h = true -> no_other (erase a c h) = true.
Proof.
  unfold no_other, erase. rewrite !forallb_forall. intros H o Ho. apply filter_In in Ho as [Ho _]. now apply H.
Qed.

Lemma steps_sim a c h : forall w1 w2, wf w1 -> tame w1 -> wf w2 -> tame w2 ->
  no_other h = true -> owns a c h = true -> sim a c w1 w2 ->
  sim a c (steps cfg w1 h) (steps cfg w2 (erase a c h)).
Proof.
  induction h as [|o t IH]; intros w1 w2 Hwf1 Ht1 Hwf2 Ht2 Hno Hown Hsim; [exact Hsim|].
  cbn [no_other owns forallb] in Hno, Hown.
  apply andb_true_iff in Hno as [Ho Hno]. apply andb_true_iff in Hown as [Hoo Hown].
  rewrite steps_cons. unfold erase. cbn [filter]. fold (erase a c t).
  destruct (step_inv w1 o Hwf1 Ht1 Ho) as [Hwf1' [Ht1' _]].
  destruct (step_spec w1 o Hwf1 Ht1 Ho) as [w1' [Hrun1 [Hs1 Hc1]]]. rewrite Hrun1 in *. cbn [fst] in *.
  destruct (spec_sim a c w1 w2 o Hwf1 Hsim Hoo) as [H1 [H2 H3]].
  destruct (mentions a c o) eqn:Em; cbn [negb].
  - apply IH; auto. unfold sim. rewrite Hs1. split; [exact H1|split; [exact H2|]].
    intros x Hx. rewrite Hc1. now apply H3.
  - rewrite steps_cons.
    destruct (step_inv w2 o Hwf2 Ht2 Ho) as [Hwf2' [Ht2' _]].
    destruct (step_spec w2 o Hwf2 Ht2 Ho) as [w2' [Hrun2 [Hs2 Hc2]]]. rewrite Hrun2 in *. cbn [fst] in *.
    apply IH; auto. unfold sim. rewrite Hs1, Hs2. split; [exact H1|split; [exact H2|]].
    intros x Hx. rewrite Hc1, Hc2. now apply H3.
Qed.

Lemma isolation a c h : no_other h = true -> owns a c h = true ->
  (forall x, x <> c -> chans (steps cfg init h) x = chans (steps cfg init (erase a c h)) x)
  /\ subscribers (steps cfg init (erase a c h)) = filter (negkey a) (subscribers (steps cfg init h)).
Proof.
  intros Hno Hown.
  destruct (steps_sim a c h init init init_wf init_tame init_wf init_tame Hno Hown) as [H1 [_ H3]].
  - split; [reflexivity|split; [intros b y []|reflexivity]].
  - split; assumption.
Qed.

End Tolerant.

(* ------------------------------------------------------------------ 5. the two catch configurations *)
Lemma cfg_fixed_tolerant f : f <> OtherErr ->
  caught_send cfg_fixed f = true /\ caught_bcast cfg_fixed f = true.
Proof. destruct f; cbn; intros H; try (split; reflexivity). congruence. Qed.

(* the tree before the fix: one subscriber whose connection raises ConnectionResetError (an OSError that
   is not a BrokenPipeError) stops the dispatcher loop; the healthy subscriber 1 never gets event 7,
   and the events still in the queue (8) are never dispatched *)
Definition orig_witness : list op :=
  [Subscribe 0 0; Subscribe 1 1; Break 0 OSErr; Publish 7; Publish 8].

Lemma orig_stops_dispatcher :
  no_other orig_witness = true /\
  (exists w e, run_loop cfg_orig init orig_witness 0 = (w, Raise e, 4) /\ rcvd w 1 = [MSubscribed]) /\
  (exists w, run_loop cfg_fixed init orig_witness 0 = (w, Ret tt, 5)
             /\ rcvd w 1 = [MSubscribed; MEv 7; MEv 8] /\ subscribers w = [(1, 1)]).
Proof.
  split; [reflexivity|]. split.
  - eexists. eexists. split; vm_compute; reflexivity.
  - eexists. split; [vm_compute; reflexivity|]. split; vm_compute; reflexivity.
Qed.

(* faithful-model fact about the fixed tree: an exception of a type that is neither OSError nor EOFError
   still leaves _broadcast; subscribers later in dict order miss that event *)
Definition other_witness : list op :=
  [Subscribe 0 0; Subscribe 1 1; Break 0 OtherErr; Publish 7].

Lemma other_escapes :
  outcomes cfg_fixed init other_witness = [Ret tt; Ret tt; Ret tt; Raise (ExChan OtherErr)]
  /\ rcvd (steps cfg_fixed init other_witness) 1 = [MSubscribed].
Proof. split; vm_compute; reflexivity. Qed.

(* non-vacuity: a history with three subscribers, a repeated subscription, an unknown and a repeated
   unsubscription, and a channel that breaks in the middle satisfies every hypothesis used above *)
Definition ex_h1 : list op := [Subscribe 0 0; Publish 1; Unsubscribe 9].
Definition ex_h2 : list op :=
  [Publish 2; Subscribe 2 2; Publish 3; Break 0 OSErr; Publish 4; Subscribe 1 1; Unsubscribe 0; Unsubscribe 0;
   Break 2 BrokenPipe; Publish 5].
Definition ex_h3 : list op := [Publish 6; Subscribe 1 1; Publish 7].

Lemma example_hyps :
  no_other (ex_h1 ++ Subscribe 1 1 :: ex_h2 ++ Unsubscribe 1 :: ex_h3) = true
  /\ untouched 1 ex_h1 = true /\ quiet 1 1 ex_h2 = true
  /\ owns 0 0 (ex_h1 ++ Subscribe 1 1 :: ex_h2 ++ Unsubscribe 1 :: ex_h3) = true
  /\ rcvd (exec (ex_h1 ++ Subscribe 1 1 :: ex_h2 ++ Unsubscribe 1 :: ex_h3)) 1
     = [MSubscribed; MEv 2; MEv 3; MEv 4; MSubscribed; MEv 5; MUnsubscribed]
  /\ rcvd (exec (ex_h1 ++ Subscribe 1 1 :: ex_h2 ++ Unsubscribe 1 :: ex_h3)) 0
     = [MSubscribed; MEv 1; MEv 2; MEv 3].
Proof. repeat split; vm_compute; reflexivity. Qed.

(* the loop with a fallible queue.get coincides with run_loop as long as get succeeds *)
Lemma run_loop_q_items cfg q : forall w n, run_loop_q cfg w (map Item q) n = run_loop cfg w q n.
Proof.
  induction q as [|o t IH]; intros w n; cbn [map run_loop_q run_loop]; [reflexivity|].
  destruct (step cfg w o) as [w1 [u|e]]; [apply IH|reflexivity].
Qed.

(* known finding C18-dead-subscriber-unpickle: one queue item that cannot be received ends the loop;
   the healthy subscriber 1 is told DISPATCHER_SHUTDOWN and event 7 is never dispatched *)
Definition queue_witness : list qitem := [Item (Subscribe 1 1); GetRaises; Item (Publish 7)].

Lemma queue_failure_stops_dispatcher :
  exists w, run_q cfg_fixed init queue_witness = (w, Ret tt, 2)
            /\ rcvd w 1 = [MSubscribed; MShutdown].
Proof. eexists. split; vm_compute; reflexivity. Qed.

(* ------------------------------------------------------------------ 6. the per-channel reference *)
Lemma in_id_del a b ids : In b (id_del a ids) <-> b <> a /\ In b ids.
Proof.
  unfold id_del. rewrite filter_In, negb_true_iff, N.eqb_neq. tauto.
Qed.
Lemma in_id_add a b ids : In b (id_add a ids) <-> b = a \/ In b ids.
Proof.
  unfold id_add. destruct (memb a ids) eqn:E.
  - apply memb_in in E. split; [tauto|]. intros [->|H]; assumption.
  - rewrite in_app_iff. cbn [In]. split; intros H; [destruct H as [H|[H|[]]]; auto|destruct H; auto].
Qed.
Lemma NoDup_id_del a ids : NoDup ids -> NoDup (id_del a ids).
Proof. apply NoDup_filter. Qed.
Lemma NoDup_id_add a ids : NoDup ids -> NoDup (id_add a ids).
Proof.
  unfold id_add. intros H. destruct (memb a ids) eqn:E; [assumption|].
  assert (Hn : ~ In a ids) by (intros Hi; apply memb_in in Hi; congruence).
  clear E. induction ids as [|x l IH]; cbn [app]; [constructor; [intros []|constructor]|].
  inversion H as [|? ? Hx Hl]; subst. constructor.
  - rewrite in_app_iff. cbn [In]. intros [Hi|[Hi|[]]]; [now apply Hx|]. apply Hn. now left.
  - apply IH; [assumption|]. intros Hi. apply Hn. now right.
Qed.

Lemma in_filter_negkey a b y d : In (b, y) (filter (negkey a) d) <-> b <> a /\ In (b, y) d.
Proof. rewrite filter_In, negkey_pair, negb_true_iff, N.eqb_neq. tauto. Qed.

Lemma in_dset_iff a x d b y : NoDup (dkeys d) ->
  In (b, y) (dset a x d) <-> (b = a /\ y = x) \/ (b <> a /\ In (b, y) d).
Proof.
  intros Hnd. split; [now apply in_dset|].
  intros [[-> ->]|[Hne Hin]]; [apply in_dset_new|now apply in_dset_old].
Qed.

Definition vinv (c : chan) (w : world) (v : list sub_id * cstate) : Prop :=
  snd v = chans w c /\ NoDup (fst v) /\ forall b, In b (fst v) <-> In (b, c) (subscribers w).

Lemma vinv_length c w v : wf w -> vinv c w v -> length (fst v) = count c (subscribers w).
Proof.
  intros Hwf [_ [Hnd Hiff]]. unfold count.
  set (l := filter (fun p => N.eqb (snd p) c) (subscribers w)).
  rewrite <- (map_length fst l).
  assert (Hl : forall b, In b (map fst l) <-> In (b, c) (subscribers w)).
  { intros b. rewrite in_map_iff. split.
    - intros [[b' y] [Hb Hin]]. cbn [fst] in Hb. subst b'. apply filter_In in Hin as [Hin Hy].
      cbn [snd] in Hy. apply N.eqb_eq in Hy. now subst y.
    - intros Hin. exists (b, c). split; [reflexivity|]. apply filter_In. split; [assumption|apply N.eqb_refl]. }
  assert (Hndl : NoDup (map fst l)) by (apply (NoDup_keys_filter _ _ Hwf)).
  apply Nat.le_antisymm; apply NoDup_incl_length; try assumption; intros b Hb.
  - apply Hl, Hiff, Hb.
  - apply Hiff, Hl, Hb.
Qed.

Lemma view_step_inv c w w' v o : wf w -> vinv c w v ->
  subscribers w' = spec_subs o w -> chans w' c = spec_chan o w c ->
  vinv c w' (view_step c v o).
Proof.
  intros Hwf Hv Hs Hc. assert (Hlen := vinv_length c w v Hwf Hv).
  destruct v as [ids s]. destruct Hv as [Hsn [Hnd Hiff]]. cbn [fst snd] in *. subst s.
  unfold vinv. rewrite Hs, Hc.
  destruct o as [[a x|a|e]|x k]; cbn [view_step spec_subs spec_chan].
  - rewrite (N.eqb_sym x c). destruct (N.eqb_spec c x) as [<-|Hx].
    + destruct (good (chans w c)); cbn [fst snd]; (split; [reflexivity|split]).
      * now apply NoDup_id_add.
      * intros b. rewrite in_id_add, in_dset_iff, Hiff by exact Hwf.
        destruct (N.eq_dec b a); tauto.
      * now apply NoDup_id_del.
      * intros b. rewrite in_id_del, in_filter_negkey, Hiff. tauto.
    + cbn [fst snd]. split; [reflexivity|split; [now apply NoDup_id_del|]].
      intros b. rewrite in_id_del, Hiff. destruct (good (chans w x)).
      * rewrite in_dset_iff by exact Hwf. split; [tauto|]. intros [[_ H]|H]; [congruence|tauto].
      * rewrite in_filter_negkey. tauto.
  - destruct (memb a ids) eqn:Em.
    + apply memb_in, Hiff in Em. rewrite (dget_in a c _ Hwf Em), N.eqb_refl. cbn [fst snd].
      split; [reflexivity|split; [now apply NoDup_id_del|]].
      intros b. rewrite in_id_del, in_filter_negkey, Hiff. tauto.
    + assert (Hn : ~ In (a, c) (subscribers w)).
      { intros Hi. apply Hiff, memb_in in Hi. congruence. }
      cbn [fst snd]. split; [|split; [assumption|]].
      * destruct (dget a (subscribers w)) as [y|] eqn:Eg; [|reflexivity].
        destruct (N.eqb_spec c y) as [<-|_]; [|reflexivity]. exfalso. now apply Hn, dget_some_in.
      * intros b. rewrite in_filter_negkey, Hiff. split; [|tauto]. intros Hi. split; [|assumption].
        intros ->. now apply Hn.
  - rewrite <- Hlen. unfold bcast_chan. destruct (good (chans w c)) eqn:Eg; cbn [fst snd].
    + split; [reflexivity|split; [assumption|]]. intros b. rewrite filter_In, Hiff. cbn [snd]. tauto.
    + split; [reflexivity|split; [constructor|]]. intros b. rewrite filter_In. cbn [snd In]. split; [tauto|].
      intros [_ H]. congruence.
  - rewrite (N.eqb_sym x c). destruct (N.eqb_spec c x) as [<-|_]; cbn [fst snd]; (split; [reflexivity|split; assumption]).
Qed.

Section ViewT.
Variable cfg : catch_cfg.
Hypothesis Hcfg : forall f, f <> OtherErr -> caught_send cfg f = true /\ caught_bcast cfg f = true.

Lemma steps_view c h : forall w v, wf w -> tame w -> no_other h = true -> vinv c w v ->
  vinv c (steps cfg w h) (fold_left (view_step c) h v).
Proof.
  induction h as [|o t IH]; intros w v Hwf Ht Hno Hv; [exact Hv|].
  cbn [no_other forallb] in Hno. apply andb_true_iff in Hno as [Ho Hno].
  rewrite steps_cons. cbn [fold_left].
  destruct (step_inv cfg Hcfg w o Hwf Ht Ho) as [Hwf' [Ht' _]].
  destruct (step_spec cfg Hcfg w o Hwf Ht Ho) as [w' [Hrun [Hs Hc]]]. rewrite Hrun in *. cbn [fst] in *.
  apply IH; auto. apply (view_step_inv c w w' v o Hwf Hv Hs (Hc c)).
Qed.

Lemma view_correct c h : no_other h = true ->
  chans (steps cfg init h) c = snd (view c h)
  /\ forall b, In b (fst (view c h)) <-> dget b (subscribers (steps cfg init h)) = Some c.
Proof.
  intros Hno.
  destruct (steps_view c h init ([], fresh_chan) init_wf init_tame Hno) as [H1 [_ H3]].
  - split; [reflexivity|split; [constructor|]]. intros b. cbn. tauto.
  - split; [symmetry; exact H1|]. intros b. unfold view. rewrite H3.
    destruct (steps_inv cfg Hcfg h init init_wf init_tame Hno) as [Hwf _].
    split; [now apply dget_in|apply dget_some_in].
Qed.
End ViewT.
