(* C18 — lemmas about the dispatcher model.  Structure:
   1. the ordered dict (keys unique), 2. channel-state algebra, 3. closed-form description of one
   step (step_spec) for every catch configuration that tolerates all channel errors,
   4. the theorems of Props/C18.v derived from the closed form. *)
From PM Require Import Lib.Bytes Event.Dispatcher.
Local Open Scope N_scope.

(* ------------------------------------------------------------------ 1. dict *)
Definition negkey (a : sub_id) (p : sub_id * chan) : bool := negb (N.eqb (fst p) a).
Definition wf (w : world) : Prop := NoDup (dkeys (subscribers w)).

Lemma dget_some_in a c d : dget a d = Some c -> In (a, c) d.
Proof.
  induction d as [|[a' c'] t IH]; cbn [dget]; [discriminate|].
  destruct (N.eqb_spec a a') as [->|Hne]; intros H.
  - injection H as ->. now left.
  - right. now apply IH.
Qed.

Lemma dget_none_notin a d : dget a d = None -> ~ In a (dkeys d).
Proof.
  induction d as [|[a' c'] t IH]; cbn [dget dkeys map fst]; [intros _ []|].
  destruct (N.eqb_spec a a') as [->|Hne]; [discriminate|].
  intros H [He|Hin]; [congruence|]. now apply IH.
Qed.

Lemma in_keys a c d : In (a, c) d -> In a (dkeys d).
Proof. intros H. unfold dkeys. change a with (fst (a, c)). now apply in_map. Qed.

Lemma dget_in a c d : NoDup (dkeys d) -> In (a, c) d -> dget a d = Some c.
Proof.
  induction d as [|[a' c'] t IH]; cbn [dget dkeys map fst]; [intros _ []|].
  intros Hnd [He|Hin]; inversion Hnd as [|? ? Hni Hnd']; subst.
  - injection He as -> ->. now rewrite N.eqb_refl.
  - destruct (N.eqb_spec a a') as [->|Hne].
    + exfalso. apply Hni. eapply in_keys; eassumption.
    + now apply IH.
Qed.

Lemma dhas_in_keys a d : dhas a d = true <-> In a (dkeys d).
Proof.
  unfold dhas. destruct (dget a d) as [c|] eqn:E.
  - split; [intros _|reflexivity]. eapply in_keys, dget_some_in; eassumption.
  - split; [discriminate|]. intros H. exfalso. eapply dget_none_notin; eassumption.
Qed.

Lemma filter_negkey_notin a d : ~ In a (dkeys d) -> filter (negkey a) d = d.
Proof.
  induction d as [|[a' c'] t IH]; cbn [filter dkeys map fst]; [reflexivity|].
  intros H. unfold negkey at 1; cbn [fst].
  destruct (N.eqb_spec a' a) as [->|Hne]; cbn [negb].
  - exfalso. apply H. now left.
  - f_equal. apply IH. intros Hin. apply H. now right.
Qed.

Lemma ddel_filter a d : NoDup (dkeys d) -> In a (dkeys d) -> ddel a d = Some (filter (negkey a) d).
Proof.
  induction d as [|[a' c'] t IH]; cbn [ddel dkeys map fst filter]; [intros _ []|].
  intros Hnd Hin. inversion Hnd as [|? ? Hni Hnd']; subst.
  unfold negkey at 1; cbn [fst]. rewrite (N.eqb_sym a' a).
  destruct (N.eqb_spec a a') as [->|Hne]; cbn [negb].
  - now rewrite filter_negkey_notin.
  - destruct Hin as [He|Hin]; [congruence|]. now rewrite IH.
Qed.

Lemma keys_filter_incl (P : sub_id * chan -> bool) d a : In a (dkeys (filter P d)) -> In a (dkeys d).
Proof.
  unfold dkeys. rewrite !in_map_iff. intros [p [Hp Hin]]. apply filter_In in Hin as [Hin _]. eauto.
Qed.

Lemma NoDup_keys_filter (P : sub_id * chan -> bool) d : NoDup (dkeys d) -> NoDup (dkeys (filter P d)).
Proof.
  induction d as [|p t IH]; cbn [filter dkeys map]; [auto|].
  intros Hnd. inversion Hnd as [|? ? Hni Hnd']; subst.
  destruct (P p); cbn [map]; [|now apply IH].
  constructor; [|now apply IH]. intros Hin. apply Hni. eapply keys_filter_incl; eassumption.
Qed.

Lemma dkeys_dset a c d : dkeys (dset a c d) = if dhas a d then dkeys d else dkeys d ++ [a].
Proof.
  unfold dhas. induction d as [|[a' c'] t IH]; cbn [dset dget dkeys map fst app]; [reflexivity|].
  destruct (N.eqb_spec a a') as [->|Hne]; cbn [map fst]; [reflexivity|].
  fold (dkeys (dset a c t)). rewrite IH. fold (dkeys t). now destruct (dget a t).
Qed.

Lemma NoDup_dset a c d : NoDup (dkeys d) -> NoDup (dkeys (dset a c d)).
Proof.
  intros Hnd. rewrite dkeys_dset. destruct (dhas a d) eqn:E; [assumption|].
  assert (Hni : ~ In a (dkeys d)). { intros H. apply dhas_in_keys in H. congruence. }
  clear E. induction (dkeys d) as [|x l IH]; cbn [app].
  - constructor; [intros []|constructor].
  - inversion Hnd as [|? ? Hx Hl]; subst. constructor.
    + rewrite in_app_iff. intros [H|[H|[]]]; [now apply Hx|]. apply Hni. now left.
    + apply IH; [assumption|]. intros H. apply Hni. now right.
Qed.

Lemma dget_dset_same a c d : dget a (dset a c d) = Some c.
Proof.
  induction d as [|[a' c'] t IH]; cbn [dset dget]; [now rewrite N.eqb_refl|].
  destruct (N.eqb_spec a a') as [->|Hne]; cbn [dget]; [now rewrite N.eqb_refl|].
  destruct (N.eqb_spec a a'); [congruence|assumption].
Qed.

Lemma dget_dset_other a b c d : b <> a -> dget b (dset a c d) = dget b d.
Proof.
  intros Hne. induction d as [|[a' c'] t IH]; cbn [dset dget].
  - destruct (N.eqb_spec b a); [congruence|reflexivity].
  - destruct (N.eqb_spec a a') as [->|Hne']; cbn [dget].
    + destruct (N.eqb_spec b a'); [congruence|reflexivity].
    + now rewrite IH.
Qed.

Lemma in_dset a c d b x : NoDup (dkeys d) -> In (b, x) (dset a c d) ->
  (b = a /\ x = c) \/ (b <> a /\ In (b, x) d).
Proof.
  induction d as [|[a' c'] t IH]; cbn [dset dkeys map fst]; intros Hnd.
  - intros [H|[]]. injection H as <- <-. now left.
  - inversion Hnd as [|? ? Hni Hnd']; subst.
    destruct (N.eqb_spec a a') as [->|Hne].
    + intros [H|H]; [injection H as <- <-; now left|].
      right. split; [|now right]. intros ->. apply Hni. eapply in_keys; eassumption.
    + intros [H|H].
      * injection H as <- <-. right. split; [congruence|now left].
      * destruct (IH Hnd' H) as [?|[? ?]]; [now left|right; split; [assumption|now right]].
Qed.

Lemma in_dset_new a c d : In (a, c) (dset a c d).
Proof. apply dget_some_in, dget_dset_same. Qed.

Lemma in_dset_old a c d b x : b <> a -> In (b, x) d -> In (b, x) (dset a c d).
Proof.
  intros Hne. induction d as [|[a' c'] t IH]; cbn [dset]; [intros []|].
  destruct (N.eqb_spec a a') as [->|Hne'].
  - intros [H|H]; [injection H as <- <-; congruence|now right].
  - intros [H|H]; [now left|right; now apply IH].
Qed.

Lemma negkey_pair a b x : negkey a (b, x) = negb (N.eqb b a).
Proof. reflexivity. Qed.

Lemma filter_negkey_dset_same a c d : filter (negkey a) (dset a c d) = filter (negkey a) d.
Proof.
  induction d as [|[a' c'] t IH]; cbn [dset filter].
  - now rewrite negkey_pair, N.eqb_refl.
  - destruct (N.eqb_spec a a') as [->|Hne]; cbn [filter].
    + now rewrite !negkey_pair, N.eqb_refl.
    + now rewrite IH.
Qed.

Lemma filter_negkey_dset_other a b c d : b <> a ->
  filter (negkey a) (dset b c d) = dset b c (filter (negkey a) d).
Proof.
  intros Hne. induction d as [|[a' c'] t IH]; cbn [dset filter].
  - rewrite negkey_pair. destruct (N.eqb_spec b a); [congruence|reflexivity].
  - destruct (N.eqb_spec b a') as [->|Hne']; cbn [filter]; rewrite !negkey_pair.
    + destruct (N.eqb_spec a' a); [congruence|]. cbn [negb dset]. now rewrite N.eqb_refl.
    + destruct (N.eqb_spec a' a); cbn [negb dset]; [assumption|].
      destruct (N.eqb_spec b a'); [congruence|]. now rewrite IH.
Qed.

Lemma filter_filter {A} (f g : A -> bool) l :
  filter f (filter g l) = filter (fun x => g x && f x) l.
Proof.
  induction l as [|x t IH]; cbn [filter]; [reflexivity|].
  destruct (g x); cbn [filter andb]; [destruct (f x)|]; now rewrite IH.
Qed.

Lemma filter_comm {A} (f g : A -> bool) l : filter f (filter g l) = filter g (filter f l).
Proof. rewrite !filter_filter. apply filter_ext. intros x. apply andb_comm. Qed.

Definition memb (a : sub_id) (ks : list sub_id) : bool := existsb (N.eqb a) ks.

Lemma memb_in a ks : memb a ks = true <-> In a ks.
Proof.
  unfold memb. rewrite existsb_exists. split.
  - intros [x [Hin He]]. apply N.eqb_eq in He. now subst.
  - intros H. exists a. split; [assumption|apply N.eqb_refl].
Qed.

Lemma in_keys_filter_negkey a b d : In b (dkeys d) -> b <> a -> In b (dkeys (filter (negkey a) d)).
Proof.
  unfold dkeys. rewrite !in_map_iff. intros [p [Hp Hin]] Hne. exists p. split; [assumption|].
  apply filter_In. split; [assumption|]. unfold negkey. rewrite Hp. now apply negb_true_iff, N.eqb_neq.
Qed.

Lemma del_all_spec ks : forall d, NoDup (dkeys d) -> NoDup ks -> incl ks (dkeys d) ->
  del_all d ks = Some (filter (fun p => negb (memb (fst p) ks)) d).
Proof.
  induction ks as [|a t IH]; intros d Hd Hks Hincl; cbn [del_all].
  - f_equal. symmetry. rewrite <- (filter_ext (fun _ => true)) at 1.
    + clear. induction d as [|p l IHl]; cbn [filter]; [reflexivity|now rewrite IHl].
    + reflexivity.
  - inversion Hks as [|? ? Hni Hks']; subst.
    rewrite ddel_filter by (auto; apply Hincl; now left).
    rewrite IH; [| now apply NoDup_keys_filter | assumption |].
    + f_equal. rewrite filter_filter. apply filter_ext. intros p.
      unfold negkey, memb. cbn [existsb]. now rewrite negb_orb.
    + intros b Hb. apply in_keys_filter_negkey; [apply Hincl; now right|]. intros ->. now apply Hni.
Qed.

(* ------------------------------------------------------------------ 2. channel states *)
Lemma upd_same (E : env) c s : upd E c s c = s.
Proof. unfold upd. now rewrite N.eqb_refl. Qed.
Lemma upd_other (E : env) c s x : x <> c -> upd E c s x = E x.
Proof. unfold upd. intros H. destruct (N.eqb_spec x c); [congruence|reflexivity]. Qed.

Lemma good_iff s : good s = true <-> send_outcome s = None.
Proof. unfold good. destruct (send_outcome s); split; congruence. Qed.
Lemma good_push m s : good (push m s) = good s.
Proof. reflexivity. Qed.
Lemma good_pushes l s : good (pushes l s) = good s.
Proof. reflexivity. Qed.
Lemma good_close1 s : good (close1 s) = false.
Proof. reflexivity. Qed.
Lemma good_break k s : good (break_with k s) = false.
Proof. unfold good, send_outcome, break_with; cbn. now destruct (c_closed s). Qed.
Lemma good_fresh : good fresh_chan = true.
Proof. reflexivity. Qed.
Lemma pushes_nil s : pushes [] s = s.
Proof. destruct s. unfold pushes; cbn. now rewrite app_nil_r. Qed.
Lemma pushes_push m l s : pushes l (push m s) = pushes (m :: l) s.
Proof. unfold pushes, push; cbn. now rewrite <- app_assoc. Qed.
Lemma push_pushes m s : push m s = pushes [m] s.
Proof. reflexivity. Qed.
Lemma iter_close_good n s : (0 < n)%nat -> good (Nat.iter n close1 s) = false.
Proof. destruct n; [lia|]. reflexivity. Qed.
Lemma rcvd_iter_close n s : c_rcvd (Nat.iter n close1 s) = c_rcvd s.
Proof. induction n; cbn; [reflexivity|assumption]. Qed.
Lemma fault_iter_close n s : c_fault (Nat.iter n close1 s) = c_fault s.
Proof. induction n; cbn; [reflexivity|assumption]. Qed.

(* effect of one _broadcast on a channel that is the value of n entries of the table *)
Definition bcast_chan (m : msg) (n : nat) (s : cstate) : cstate :=
  if good s then pushes (repeat m n) s else Nat.iter n close1 s.

Lemma bcast_chan_0 m s : bcast_chan m 0 s = s.
Proof. unfold bcast_chan. destruct (good s); [apply pushes_nil|reflexivity]. Qed.

(* number of entries of the table whose value is channel x *)
Definition count (x : chan) (d : dict) : nat := length (filter (fun p => N.eqb (snd p) x) d).
(* the same counted over a list of keys, looking each key up *)
Definition cnt (d : dict) (x : chan) (ks : list sub_id) : nat :=
  length (filter (fun a => match dget a d with Some c => N.eqb c x | None => false end) ks).
Definition bad_key (d : dict) (E : env) (a : sub_id) : bool :=
  match dget a d with Some c => negb (good (E c)) | None => false end.

Lemma length_filter_keys (d : dict) (f : sub_id -> bool) (g : sub_id * chan -> bool) :
  (forall p, In p d -> f (fst p) = g p) ->
  length (filter f (map fst d)) = length (filter g d).
Proof.
  induction d as [|p t IH]; cbn [map filter]; [reflexivity|]. intros H.
  rewrite (H p (or_introl eq_refl)). destruct (g p); cbn [length]; rewrite IH; auto.
  all: intros q Hq; apply H; now right.
Qed.

Lemma cnt_count d x : NoDup (dkeys d) -> cnt d x (dkeys d) = count x d.
Proof.
  intros Hnd. unfold cnt, count, dkeys. apply length_filter_keys.
  intros [a c] Hin. cbn [fst snd]. now rewrite (dget_in a c d Hnd Hin).
Qed.

Lemma count_zero x d : (forall b y, In (b, y) d -> y <> x) -> count x d = 0%nat.
Proof.
  unfold count. induction d as [|[b y] t IH]; cbn [filter snd]; [reflexivity|]. intros H.
  destruct (N.eqb_spec y x) as [->|Hne].
  - exfalso. eapply H; [now left|reflexivity].
  - apply IH. intros b' y' Hin. eapply H. right; eassumption.
Qed.

Lemma count_one a x d : NoDup (dkeys d) -> In (a, x) d -> (forall b y, In (b, y) d -> y = x -> b = a) ->
  count x d = 1%nat.
Proof.
  unfold count. induction d as [|[b y] t IH]; cbn [filter snd dkeys map fst]; [intros _ []|].
  intros Hnd Hin Huniq. inversion Hnd as [|? ? Hni Hnd']; subst.
  destruct (N.eqb_spec y x) as [->|Hne].
  - assert (b = a) as -> by (eapply Huniq; [now left|reflexivity]).
    cbn [length]. f_equal. apply (count_zero x t). intros b' y' Hin' ->.
    apply Hni. assert (b' = a) as -> by (eapply Huniq; [right; eassumption|reflexivity]).
    eapply in_keys; eassumption.
  - destruct Hin as [He|Hin]; [congruence|]. apply IH; auto.
    intros b' y' Hin'. apply Huniq. now right.
Qed.

(* ------------------------------------------------------------------ 3. closed form of one step *)
Section Tolerant.
Variable cfg : catch_cfg.
Hypothesis Hcfg : forall f, f <> OtherErr -> caught_send cfg f = true /\ caught_bcast cfg f = true.

(* no channel raises an exception that is not an OSError/EOFError *)
Definition tame (w : world) : Prop := forall x, c_fault (chans w x) <> Some OtherErr.

Lemma tame_outcome w x f : tame w -> send_outcome (chans w x) = Some f -> f <> OtherErr.
Proof.
  unfold send_outcome. intros Ht. destruct (c_closed (chans w x)).
  - intros H; injection H as <-. discriminate.
  - intros H <-. now apply (Ht x).
Qed.

Lemma bcast_loop_spec m : forall ks w broken,
  tame w ->
  (forall a, In a ks -> dhas a (subscribers w) = true) ->
  exists w', bcast_loop cfg ks m w broken
             = (w', Ret (broken ++ filter (bad_key (subscribers w) (chans w)) ks))
    /\ subscribers w' = subscribers w
    /\ forall x, chans w' x = bcast_chan m (cnt (subscribers w) x ks) (chans w x).
Proof.
  induction ks as [|a t IH]; intros w broken Ht Hks; cbn [bcast_loop filter].
  - exists w. rewrite app_nil_r. repeat split. intros x. unfold cnt; cbn. now rewrite bcast_chan_0.
  - assert (Ha := Hks a (or_introl eq_refl)). unfold dhas in Ha.
    unfold bad_key at 1. unfold cnt; cbn [filter]. fold (cnt (subscribers w)).
    destruct (dget a (subscribers w)) as [c|] eqn:Eg; [clear Ha|discriminate].
    destruct (send_outcome (chans w c)) as [f|] eqn:Eo.
    + (* send raised *)
      assert (Hf := tame_outcome w c f Ht Eo). destruct (Hcfg f Hf) as [_ ->].
      assert (Hg : good (chans w c) = false) by (unfold good; now rewrite Eo).
      rewrite Hg. cbn [negb].
      set (w1 := _close w a).
      assert (Hs1 : subscribers w1 = subscribers w) by (unfold w1, _close; now rewrite Eg).
      assert (Hc1 : forall x, chans w1 x = if N.eqb x c then close1 (chans w c) else chans w x).
      { intros x. unfold w1, _close. rewrite Eg. reflexivity. }
      destruct (IH w1 (broken ++ [a])) as [w' [Hrun [Hsubs Hch]]].
      * intros x. rewrite Hc1. destruct (N.eqb_spec x c) as [->|_]; [apply (Ht c)|apply Ht].
      * intros b Hb. rewrite Hs1. apply Hks. now right.
      * exists w'. rewrite Hrun, Hs1. repeat split; [|congruence|].
        -- rewrite <- app_assoc. cbn [app]. do 3 f_equal. apply filter_ext. intros b.
           unfold bad_key. destruct (dget b (subscribers w)) as [y|]; [|reflexivity].
           rewrite Hc1. destruct (N.eqb_spec y c) as [->|_]; [now rewrite good_close1, Hg|reflexivity].
        -- intros x. rewrite Hch, Hs1, Hc1. destruct (N.eqb_spec x c) as [->|Hne].
           ++ rewrite N.eqb_refl. cbn [length]. unfold bcast_chan. rewrite good_close1, Hg.
              now rewrite Nat.iter_succ_r.
           ++ destruct (N.eqb_spec c x); [congruence|reflexivity].
    + (* delivered *)
      assert (Hg : good (chans w c) = true) by (unfold good; now rewrite Eo).
      rewrite Hg. cbn [negb].
      set (w1 := set_chans w (upd (chans w) c (push m (chans w c)))).
      assert (Hc1 : forall x, chans w1 x = if N.eqb x c then push m (chans w c) else chans w x) by reflexivity.
      destruct (IH w1 broken) as [w' [Hrun [Hsubs Hch]]].
      * intros x. rewrite Hc1. destruct (N.eqb_spec x c) as [->|_]; [apply (Ht c)|apply Ht].
      * intros b Hb. apply Hks. now right.
      * exists w'. rewrite Hrun. change (subscribers w1) with (subscribers w). repeat split; [|assumption|].
        -- do 3 f_equal. apply filter_ext. intros b.
           unfold bad_key. destruct (dget b (subscribers w)) as [y|]; [|reflexivity].
           rewrite Hc1. destruct (N.eqb_spec y c) as [->|_]; [now rewrite good_push|reflexivity].
        -- intros x. rewrite Hch. change (subscribers w1) with (subscribers w). rewrite Hc1.
           destruct (N.eqb_spec x c) as [->|Hne].
           ++ rewrite N.eqb_refl. cbn [length]. unfold bcast_chan. rewrite good_push, Hg.
              cbn [repeat]. apply pushes_push.
           ++ destruct (N.eqb_spec c x); [congruence|reflexivity].
Qed.

Lemma broadcast_spec m w : wf w -> tame w ->
  exists w', _broadcast cfg w m = (w', Ret tt)
    /\ subscribers w' = filter (fun p => good (chans w (snd p))) (subscribers w)
    /\ forall x, chans w' x = bcast_chan m (count x (subscribers w)) (chans w x).
Proof.
  intros Hwf Ht. unfold _broadcast.
  destruct (bcast_loop_spec m (dkeys (subscribers w)) w [] Ht) as [w1 [Hrun [Hsubs Hch]]].
  { intros a Ha. now apply dhas_in_keys. }
  rewrite Hrun, Hsubs. cbn [app].
  rewrite del_all_spec; [|exact Hwf|now apply NoDup_filter|intros a Ha; apply filter_In in Ha; tauto].
  eexists. split; [reflexivity|]. cbn [subscribers chans]. split.
  - apply filter_ext_in. intros [a c] Hin. cbn [fst snd].
    assert (Hk : In a (dkeys (subscribers w))) by (eapply in_keys; eassumption).
    destruct (memb a (filter (bad_key (subscribers w) (chans w)) (dkeys (subscribers w)))) eqn:Em.
    + apply memb_in, filter_In in Em as [_ Hb]. unfold bad_key in Hb.
      rewrite (dget_in a c _ Hwf Hin) in Hb. cbn [negb]. now apply negb_true_iff in Hb.
    + cbn [negb]. destruct (good (chans w c)) eqn:Eg; [reflexivity|]. exfalso.
      assert (Hm : memb a (filter (bad_key (subscribers w) (chans w)) (dkeys (subscribers w))) = true).
      { apply memb_in, filter_In. split; [assumption|]. unfold bad_key.
        now rewrite (dget_in a c _ Hwf Hin), Eg. }
      congruence.
  - intros x. rewrite Hch. now rewrite cnt_count.
Qed.

(* the closed form *)
Definition spec_subs (o : op) (w : world) : dict :=
  match o with
  | Handle (ESubscribe a c) =>
      if good (chans w c) then dset a c (subscribers w) else filter (negkey a) (subscribers w)
  | Handle (EUnsubscribe a) => filter (negkey a) (subscribers w)
  | Handle (EPublish _) => filter (fun p => good (chans w (snd p))) (subscribers w)
  | Break _ _ => subscribers w
  end.

Definition spec_chan (o : op) (w : world) (x : chan) : cstate :=
  match o with
  | Handle (ESubscribe a c) =>
      if N.eqb x c then (if good (chans w c) then push MSubscribed (chans w c) else close1 (chans w c))
      else chans w x
  | Handle (EUnsubscribe a) =>
      match dget a (subscribers w) with
      | Some c => if N.eqb x c
                  then close1 (if good (chans w c) then push MUnsubscribed (chans w c) else chans w c)
                  else chans w x
      | None => chans w x
      end
  | Handle (EPublish e) => bcast_chan (MEv e) (count x (subscribers w)) (chans w x)
  | Break c k => if N.eqb x c then break_with k (chans w c) else chans w x
  end.

Lemma close_and_delete_spec w a c : wf w -> dget a (subscribers w) = Some c ->
  exists w', _close_and_delete w a = (w', Ret tt)
    /\ subscribers w' = filter (negkey a) (subscribers w)
    /\ forall x, chans w' x = if N.eqb x c then close1 (chans w c) else chans w x.
Proof.
  intros Hwf Hg. unfold _close_and_delete, _close. rewrite Hg. cbn [subscribers set_chans].
  rewrite ddel_filter; [|exact Hwf|eapply in_keys, dget_some_in; eassumption].
  eexists. split; [reflexivity|]. split; reflexivity.
Qed.

Lemma step_spec w o : wf w -> tame w -> no_other_op o = true ->
  exists w', step cfg w o = (w', Ret tt)
    /\ subscribers w' = spec_subs o w
    /\ forall x, chans w' x = spec_chan o w x.
Proof.
  intros Hwf Ht Hno. destruct o as [[a c|a|e]|c k]; cbn [step handle_event spec_subs spec_chan].
  - (* subscribe *)
    set (w1 := mk_world (dset a c (subscribers w)) (chans w)).
    assert (Hwf1 : wf w1) by (apply NoDup_dset, Hwf).
    unfold _send. cbn [subscribers chans w1]. fold w1. rewrite dget_dset_same.
    destruct (send_outcome (chans w c)) as [f|] eqn:Eo.
    + assert (Hf := tame_outcome w c f Ht Eo). destruct (Hcfg f Hf) as [-> _].
      assert (Hg : good (chans w c) = false) by (unfold good; now rewrite Eo). rewrite Hg.
      destruct (close_and_delete_spec w1 a c Hwf1) as [w' [Hrun [Hs Hc]]]; [apply dget_dset_same|].
      exists w'. split; [exact Hrun|]. split; [|exact Hc].
      rewrite Hs. unfold w1; cbn [subscribers]. apply filter_negkey_dset_same.
    + assert (Hg : good (chans w c) = true) by (unfold good; now rewrite Eo). rewrite Hg.
      eexists. split; [reflexivity|]. split; reflexivity.
  - (* unsubscribe *)
    unfold dhas, _send. destruct (dget a (subscribers w)) as [c|] eqn:Eg.
    + destruct (send_outcome (chans w c)) as [f|] eqn:Eo.
      * assert (Hf := tame_outcome w c f Ht Eo). destruct (Hcfg f Hf) as [-> _].
        assert (Hg : good (chans w c) = false) by (unfold good; now rewrite Eo). rewrite Hg.
        destruct (close_and_delete_spec w a c Hwf Eg) as [w' [Hrun [Hs Hc]]].
        exists w'. auto.
      * assert (Hg : good (chans w c) = true) by (unfold good; now rewrite Eo). rewrite Hg.
        set (w1 := set_chans w (upd (chans w) c (push MUnsubscribed (chans w c)))).
        destruct (close_and_delete_spec w1 a c Hwf Eg) as [w' [Hrun [Hs Hc]]].
        exists w'. split; [exact Hrun|]. split; [exact Hs|].
        intros x. rewrite Hc. unfold w1; cbn [chans set_chans]. rewrite upd_same.
        destruct (N.eqb_spec x c) as [->|Hne]; [reflexivity|now apply upd_other].
    + exists w. split; [reflexivity|]. split; [|reflexivity].
      symmetry. apply filter_negkey_notin. now apply dget_none_notin.
  - (* publish *)
    apply broadcast_spec; assumption.
  - eexists. split; [reflexivity|]. split; reflexivity.
Qed.

(* wf and tame are invariants *)
Lemma spec_wf w o : wf w -> NoDup (dkeys (spec_subs o w)).
Proof.
  intros Hwf. destruct o as [[a c|a|e]|c k]; cbn [spec_subs]; try exact Hwf.
  - destruct (good (chans w c)); [now apply NoDup_dset|now apply NoDup_keys_filter].
  - now apply NoDup_keys_filter.
  - now apply NoDup_keys_filter.
Qed.

Lemma bcast_chan_fault m n s : c_fault (bcast_chan m n s) = c_fault s.
Proof. unfold bcast_chan. destruct (good s); [reflexivity|apply fault_iter_close]. Qed.

Lemma spec_tame w o : tame w -> no_other_op o = true -> forall x, c_fault (spec_chan o w x) <> Some OtherErr.
Proof.
  intros Ht Hno x. destruct o as [[a c|a|e]|c k]; cbn [spec_chan].
  - destruct (N.eqb x c); [|apply Ht]. destruct (good (chans w c)); apply (Ht c).
  - destruct (dget a (subscribers w)) as [c|]; [|apply Ht].
    destruct (N.eqb x c); [|apply Ht]. destruct (good (chans w c)); apply (Ht c).
  - rewrite bcast_chan_fault. apply Ht.
  - destruct (N.eqb x c); [|apply Ht]. cbn. destruct k; cbn in Hno; congruence.
Qed.

Lemma step_inv w o : wf w -> tame w -> no_other_op o = true ->
  wf (fst (step cfg w o)) /\ tame (fst (step cfg w o)) /\ snd (step cfg w o) = Ret tt.
Proof.
  intros Hwf Ht Hno. destruct (step_spec w o Hwf Ht Hno) as [w' [Hrun [Hs Hc]]].
  rewrite Hrun. cbn [fst snd]. split; [|split; [|reflexivity]].
  - unfold wf. rewrite Hs. now apply spec_wf.
  - intros x. rewrite Hc. now apply spec_tame.
Qed.

Lemma steps_app w h1 h2 : steps cfg w (h1 ++ h2) = steps cfg (steps cfg w h1) h2.
Proof. unfold steps. apply fold_left_app. Qed.

Lemma steps_cons w o h : steps cfg w (o :: h) = steps cfg (fst (step cfg w o)) h.
Proof. reflexivity. Qed.

Lemma steps_inv h : forall w, wf w -> tame w -> no_other h = true ->
  wf (steps cfg w h) /\ tame (steps cfg w h).
Proof.
  induction h as [|o t IH]; intros w Hwf Ht Hno; [now split|].
  cbn [no_other forallb] in Hno. apply andb_true_iff in Hno as [Ho Hno].
  rewrite steps_cons. destruct (step_inv w o Hwf Ht Ho) as [Hwf' [Ht' _]]. now apply IH.
Qed.

End Tolerant.
