(* C18 — model of proxy/core/event/dispatcher.py (EventDispatcher), function for function.
   Definitions only; lemmas live in DispatcherFacts.v.

   Python                                  Gallina
   ------                                  -------
   self.subscribers : Dict[str, Connection]   subscribers : dict   (insertion-ordered, keys sub_id)
   Connection objects (send/close)            chans : chan -> cstate  (what each channel object has received,
                                              whether its peer is gone, how often close() was called)
   handle_event / _broadcast / _send /        handle_event / _broadcast / _send /
   _close_and_delete / _close / run           _close_and_delete / _close / run
   which `except` clause catches what         catch_cfg (cfg_fixed = tree with proposed_fixes/C18-*.diff,
                                              cfg_orig = tree before it)                                  *)
From PM Require Import Lib.Bytes.

Definition sub_id := N.
Definition chan := N.

(* what a channel can be sent: the two acknowledgements, the shutdown notice of run(), a published event *)
Inductive msg := MSubscribed | MUnsubscribed | MShutdown | MEv (e : N).

(* what conn.send raises once the channel is broken.
   BrokenPipe = BrokenPipeError; EOFErr = EOFError; OSErr = any other OSError (ConnectionResetError,
   "handle is closed", "connection is read-only"); OtherErr = an exception that is not an OSError/EOFError
   (ValueError, TypeError, PicklingError ...) *)
Inductive fault := BrokenPipe | EOFErr | OSErr | OtherErr.

Record cstate := mk_cstate {
  c_fault : option fault;      (* Some k: the peer is gone, send raises k *)
  c_closed : bool;             (* close() was called on this object: send raises OSError("handle is closed") *)
  c_closes : N;                (* number of close() calls *)
  c_rcvd : list msg            (* everything successfully sent on it, oldest first *)
}.

Definition fresh_chan : cstate := mk_cstate None false 0 [].

Definition push (m : msg) (s : cstate) : cstate :=
  mk_cstate (c_fault s) (c_closed s) (c_closes s) (c_rcvd s ++ [m]).
Definition pushes (l : list msg) (s : cstate) : cstate :=
  mk_cstate (c_fault s) (c_closed s) (c_closes s) (c_rcvd s ++ l).
Definition close1 (s : cstate) : cstate :=
  mk_cstate (c_fault s) true (N.succ (c_closes s)) (c_rcvd s).
Definition break_with (k : fault) (s : cstate) : cstate :=
  mk_cstate (Some k) (c_closed s) (c_closes s) (c_rcvd s).

(* Connection.send: None = delivered *)
Definition send_outcome (s : cstate) : option fault :=
  if c_closed s then Some OSErr else c_fault s.
Definition good (s : cstate) : bool :=
  match send_outcome s with None => true | Some _ => false end.

(* ---- insertion-ordered dict sub_id -> chan (Python dict) ---- *)
Definition dict := list (sub_id * chan).
Fixpoint dget (a : sub_id) (d : dict) : option chan :=
  match d with
  | [] => None
  | (a', c) :: t => if N.eqb a a' then Some c else dget a t
  end.
Definition dhas (a : sub_id) (d : dict) : bool :=
  match dget a d with Some _ => true | None => false end.
(* d[a] = c : replaces in place, else appends *)
Fixpoint dset (a : sub_id) (c : chan) (d : dict) : dict :=
  match d with
  | [] => [(a, c)]
  | (a', c') :: t => if N.eqb a a' then (a, c) :: t else (a', c') :: dset a c t
  end.
(* del d[a] : None = KeyError *)
Fixpoint ddel (a : sub_id) (d : dict) : option dict :=
  match d with
  | [] => None
  | (a', c') :: t => if N.eqb a a' then Some t
                     else match ddel a t with Some t' => Some ((a', c') :: t') | None => None end
  end.
Definition dkeys (d : dict) : list sub_id := map fst d.

Definition env := chan -> cstate.
Definition upd (E : env) (c : chan) (s : cstate) : env := fun x => if N.eqb x c then s else E x.

Record world := mk_world { subscribers : dict; chans : env }.
Definition set_chans (w : world) (E : env) : world := mk_world (subscribers w) E.
Definition init : world := mk_world [] (fun _ => fresh_chan).

(* exceptions that can leave a dispatcher method *)
(* ExQueue: queue.get() itself raised an OSError (the queued item could not be received) *)
Inductive exc := ExKeyError | ExChan (f : fault) | ExQueue.
Inductive res (A : Type) := Ret (a : A) | Raise (e : exc).
Arguments Ret {A} a.
Arguments Raise {A} e.

(* which exceptions of conn.send the two try blocks catch *)
Record catch_cfg := mk_cfg { caught_send : fault -> bool; caught_bcast : fault -> bool }.
(* after proposed_fixes/C18-oserror-stops-dispatcher.diff: `except (OSError, EOFError)` in both *)
Definition cfg_fixed : catch_cfg :=
  mk_cfg (fun f => match f with OtherErr => false | _ => true end)
         (fun f => match f with OtherErr => false | _ => true end).
(* before: _send `except (BrokenPipeError, EOFError)`, _broadcast `except BrokenPipeError` *)
Definition cfg_orig : catch_cfg :=
  mk_cfg (fun f => match f with BrokenPipe | EOFErr => true | _ => false end)
         (fun f => match f with BrokenPipe => true | _ => false end).

(* def _close(self, sub_id): try: self.subscribers[sub_id].close() except Exception: pass *)
Definition _close (w : world) (a : sub_id) : world :=
  match dget a (subscribers w) with
  | Some c => set_chans w (upd (chans w) c (close1 (chans w c)))
  | None => w
  end.

(* def _close_and_delete(self, sub_id): self._close(sub_id); del self.subscribers[sub_id] *)
Definition _close_and_delete (w : world) (a : sub_id) : world * res unit :=
  let w1 := _close w a in
  match ddel a (subscribers w1) with
  | Some d => (mk_world d (chans w1), Ret tt)
  | None => (w1, Raise ExKeyError)
  end.

(* def _send(self, sub_id, payload) -> bool *)
Definition _send (cfg : catch_cfg) (w : world) (a : sub_id) (m : msg) : world * res bool :=
  match dget a (subscribers w) with
  | None => (w, Raise ExKeyError)
  | Some c =>
      match send_outcome (chans w c) with
      | None => (set_chans w (upd (chans w) c (push m (chans w c))), Ret true)
      | Some f => if caught_send cfg f then (w, Ret false) else (w, Raise (ExChan f))
      end
  end.

(* the first loop of _broadcast: for sub_id in self.subscribers: try send / except: _close, remember *)
Fixpoint bcast_loop (cfg : catch_cfg) (keys : list sub_id) (m : msg) (w : world) (broken : list sub_id)
  : world * res (list sub_id) :=
  match keys with
  | [] => (w, Ret broken)
  | a :: t =>
      match dget a (subscribers w) with
      | None => (w, Raise ExKeyError)
      | Some c =>
          match send_outcome (chans w c) with
          | None => bcast_loop cfg t m (set_chans w (upd (chans w) c (push m (chans w c)))) broken
          | Some f =>
              if caught_bcast cfg f then bcast_loop cfg t m (_close w a) (broken ++ [a])
              else (w, Raise (ExChan f))
          end
      end
  end.

(* the second loop: for sub_id in broken_pipes: del self.subscribers[sub_id] *)
Fixpoint del_all (d : dict) (ks : list sub_id) : option dict :=
  match ks with
  | [] => Some d
  | a :: t => match ddel a d with Some d' => del_all d' t | None => None end
  end.

Definition _broadcast (cfg : catch_cfg) (w : world) (m : msg) : world * res unit :=
  match bcast_loop cfg (dkeys (subscribers w)) m w [] with
  | (w1, Ret broken) =>
      match del_all (subscribers w1) broken with
      | Some d => (mk_world d (chans w1), Ret tt)
      | None => (w1, Raise ExKeyError)
      end
  | (w1, Raise e) => (w1, Raise e)
  end.

(* events taken from the queue *)
Inductive event :=
| ESubscribe (a : sub_id) (c : chan)     (* {'event_name': SUBSCRIBE, 'event_payload': {'sub_id', 'conn'}} *)
| EUnsubscribe (a : sub_id)              (* {'event_name': UNSUBSCRIBE, 'event_payload': {'sub_id'}} *)
| EPublish (e : N).                      (* anything else *)

Definition handle_event (cfg : catch_cfg) (w : world) (ev : event) : world * res unit :=
  match ev with
  | ESubscribe a c =>
      let w1 := mk_world (dset a c (subscribers w)) (chans w) in
      match _send cfg w1 a MSubscribed with
      | (w2, Ret true) => (w2, Ret tt)
      | (w2, Ret false) => _close_and_delete w2 a
      | (w2, Raise e) => (w2, Raise e)
      end
  | EUnsubscribe a =>
      if dhas a (subscribers w) then
        match _send cfg w a MUnsubscribed with
        | (w1, Ret _) => _close_and_delete w1 a
        | (w1, Raise e) => (w1, Raise e)
        end
      else (w, Ret tt)
  | EPublish e => _broadcast cfg w (MEv e)
  end.

(* a history: queue events interleaved with channel breakage (an act of the environment) *)
Inductive op :=
| Handle (ev : event)
| Break (c : chan) (k : fault).

Definition Subscribe a c := Handle (ESubscribe a c).
Definition Unsubscribe a := Handle (EUnsubscribe a).
Definition Publish e := Handle (EPublish e).

Definition step (cfg : catch_cfg) (w : world) (o : op) : world * res unit :=
  match o with
  | Handle ev => handle_event cfg w ev
  | Break c k => (set_chans w (upd (chans w) c (break_with k (chans w c))), Ret tt)
  end.

(* handle_event called once per history element, whatever the previous call did
   (the harness's "steps" mode: exceptions are recorded and the next event is still handled) *)
Definition steps (cfg : catch_cfg) (w : world) (h : list op) : world :=
  fold_left (fun w o => fst (step cfg w o)) h w.
Fixpoint outcomes (cfg : catch_cfg) (w : world) (h : list op) : list (res unit) :=
  match h with
  | [] => []
  | o :: t => snd (step cfg w o) :: outcomes cfg (fst (step cfg w o)) t
  end.

(* run(): while not shutdown: run_once(); any exception ends the loop (it is logged); finally the
   shutdown notice is broadcast.  The queue content is the history; the third component is the
   number of history elements consumed before the loop ended. *)
Fixpoint run_loop (cfg : catch_cfg) (w : world) (q : list op) (n : N) : world * res unit * N :=
  match q with
  | [] => (w, Ret tt, n)
  | o :: t =>
      match step cfg w o with
      | (w1, Ret _) => run_loop cfg w1 t (N.succ n)
      | (w1, Raise e) => (w1, Raise e, N.succ n)
      end
  end.

Definition run (cfg : catch_cfg) (w : world) (q : list op) : world * res unit * N :=
  match run_loop cfg w q 0 with
  | (w1, _, n) =>        (* `except Exception: logger.exception(...)` swallows the loop's exception *)
      match _broadcast cfg w1 MShutdown with       (* finally: *)
      | (w2, r) => (w2, r, n)
      end
  end.

(* The same loop when queue.get() can fail: an item that cannot be received (a SUBSCRIBE whose
   Connection cannot be rebuilt because the subscribing process is gone: ConnectionRefusedError from
   the unpickler) makes run_once() raise before handle_event is reached; run() only expects queue.Empty. *)
Inductive qitem := Item (o : op) | GetRaises.

Fixpoint run_loop_q (cfg : catch_cfg) (w : world) (q : list qitem) (n : N) : world * res unit * N :=
  match q with
  | [] => (w, Ret tt, n)
  | GetRaises :: _ => (w, Raise ExQueue, N.succ n)
  | Item o :: t =>
      match step cfg w o with
      | (w1, Ret _) => run_loop_q cfg w1 t (N.succ n)
      | (w1, Raise e) => (w1, Raise e, N.succ n)
      end
  end.

Definition run_q (cfg : catch_cfg) (w : world) (q : list qitem) : world * res unit * N :=
  match run_loop_q cfg w q 0 with
  | (w1, _, n) =>
      match _broadcast cfg w1 MShutdown with
      | (w2, r) => (w2, r, n)
      end
  end.

(* ---- vocabulary of the theorems ---- *)
Definition rcvd (w : world) (c : chan) : list msg := c_rcvd (chans w c).
Definition exec (h : list op) : world := steps cfg_fixed init h.

(* the kinds of breakage a history contains *)
Definition tolerated_op (cfg : catch_cfg) (o : op) : bool :=
  match o with
  | Break _ k => caught_send cfg k && caught_bcast cfg k
  | _ => true
  end.
Definition no_other_op (o : op) : bool :=
  match o with Break _ OtherErr => false | _ => true end.
Definition no_other (h : list op) : bool := forallb no_other_op h.

(* what subscriber (a, c) is owed by a stretch of history during which it stays subscribed:
   every published event once, in order, and a fresh acknowledgement for every repeated
   subscription under the same id with the same channel *)
Definition owed_op (a : sub_id) (c : chan) (o : op) : list msg :=
  match o with
  | Handle (EPublish e) => [MEv e]
  | Handle (ESubscribe a' c') => if N.eqb a' a && N.eqb c' c then [MSubscribed] else []
  | _ => []
  end.
Definition owed (a : sub_id) (c : chan) (h : list op) : list msg := flat_map (owed_op a c) h.

(* the stretch leaves subscriber (a, c) alone: nobody else uses its id or its channel, it does not
   unsubscribe, its channel does not break; everything else is allowed (other subscribers coming,
   going, breaking; unknown and repeated ids) *)
Definition quiet_op (a : sub_id) (c : chan) (o : op) : bool :=
  match o with
  | Handle (ESubscribe a' c') => (N.eqb a' a && N.eqb c' c) || (negb (N.eqb a' a) && negb (N.eqb c' c))
  | Handle (EUnsubscribe a') => negb (N.eqb a' a)
  | Handle (EPublish _) => true
  | Break c' _ => negb (N.eqb c' c)
  end.
Definition quiet (a : sub_id) (c : chan) (h : list op) : bool := forallb (quiet_op a c) h.

(* channel c has not been handed to the dispatcher, nor broken, in h *)
Definition untouched_op (c : chan) (o : op) : bool :=
  match o with
  | Handle (ESubscribe _ c') => negb (N.eqb c' c)
  | Break c' _ => negb (N.eqb c' c)
  | _ => true
  end.
Definition untouched (c : chan) (h : list op) : bool := forallb (untouched_op c) h.

(* subscriber a with channel c: the id is used with that channel only and vice versa *)
Definition owns_op (a : sub_id) (c : chan) (o : op) : bool :=
  match o with
  | Handle (ESubscribe a' c') => Bool.eqb (N.eqb a' a) (N.eqb c' c)
  | _ => true
  end.
Definition owns (a : sub_id) (c : chan) (h : list op) : bool := forallb (owns_op a c) h.

(* erase every operation of subscriber (a, c) from a history *)
Definition mentions (a : sub_id) (c : chan) (o : op) : bool :=
  match o with
  | Handle (ESubscribe a' c') => N.eqb a' a || N.eqb c' c
  | Handle (EUnsubscribe a') => N.eqb a' a
  | Handle (EPublish _) => false
  | Break c' _ => N.eqb c' c
  end.
Definition erase (a : sub_id) (c : chan) (h : list op) : list op :=
  filter (fun o => negb (mentions a c o)) h.

(* ---- the property as a per-channel reference ("view"): what channel c must have received, told from
   the channel's own side and without the dispatcher's table, dict order or deferred deletion.
   State: the ids currently subscribed with c, and c's state.  The harness oracle (expected_view in
   harness/props/C18.py) is the same function written in Python. ---- *)
Definition memb (a : sub_id) (ks : list sub_id) : bool := existsb (N.eqb a) ks.
Definition id_add (a : sub_id) (ids : list sub_id) : list sub_id := if memb a ids then ids else ids ++ [a].
Definition id_del (a : sub_id) (ids : list sub_id) : list sub_id := filter (fun b => negb (N.eqb b a)) ids.

Definition view_step (c : chan) (v : list sub_id * cstate) (o : op) : list sub_id * cstate :=
  let (ids, s) := v in
  match o with
  | Handle (ESubscribe a x) =>
      (* acknowledged if c is alive, else dropped at once; an id that moves to another channel leaves c *)
      if N.eqb x c then (if good s then (id_add a ids, push MSubscribed s) else (id_del a ids, close1 s))
      else (id_del a ids, s)
  | Handle (EUnsubscribe a) =>
      if memb a ids then (id_del a ids, close1 (if good s then push MUnsubscribed s else s)) else (ids, s)
  | Handle (EPublish e) =>
      (* once per id subscribed with c; a dead channel loses all its ids *)
      if good s then (ids, pushes (repeat (MEv e) (length ids)) s) else ([], Nat.iter (length ids) close1 s)
  | Break x k => if N.eqb x c then (ids, break_with k s) else (ids, s)
  end.
Definition view (c : chan) (h : list op) : list sub_id * cstate := fold_left (view_step c) h ([], fresh_chan).
